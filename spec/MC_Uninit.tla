----------------------------- MODULE MC_Uninit -----------------------------
EXTENDS Uninit, Json
Live == {s \in Slots : hnd[s].k # "none"}
Bag == LET N == {<<hnd[s].k, hnd[s].b>> : s \in Live}
       IN  [n \in N |-> Cardinality({s \in Live : <<hnd[s].k, hnd[s].b>> = n})]
CanonView == <<blk, Bag>>
Emit == PrintT(<<"BEH", ToJson([h |-> hist', x |-> Proj(blk', hnd', res')])>>)
=============================================================================
