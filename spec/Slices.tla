------------------------------- MODULE Slices -------------------------------
(***************************************************************************)
(* Handle-level (sequential) specification of triomphe, plain-slice family: *)
(* Arc<[T]> and its neighbours.  Same structure as Triomphe.tla / Thin.tla.  *)
(*                                                                         *)
(* Handle kinds                                                            *)
(*   Sl     Arc<[T]>                   SlH   Arc<HeaderSlice<(), [T]>>      *)
(*   RawSl  *const [T] (Arc::into_raw, taken back by from_raw_slice/from_raw)*)
(*   UnqSl  UniqueArc<[T]> (collect)   Arr   Arc<[T; N]> (unsized to Arc<[T]>)*)
(*   BorSl  ArcBorrow<[T]>   -- not owning                                  *)
(* A block holds `len` element objects; its value is summarised by `val`     *)
(* (written through get_mut / DerefMut into the first element).              *)
(***************************************************************************)
EXTENDS Naturals, Sequences, FiniteSets, TLC

CONSTANTS NSlots, NBlocks, MaxLen, ArrLen, Ops, KeepHist

VARIABLES blk, hnd, res, hist
vars == <<blk, hnd, res, hist>>

Slots  == 1..NSlots
Blocks == 1..NBlocks
OwnKinds == {"Sl", "SlH", "RawSl", "UnqSl", "Arr"}
Kinds == OwnKinds \cup {"BorSl"}

NoH == [k |-> "none", b |-> 0, ln |-> 0]
NoB == [st |-> "none", rc |-> 0, len |-> 0, val |-> 0, edrops |-> 0, frees |-> 0]
NoRes == [op |-> "-", s |-> 0, verdict |-> "-", panicked |-> FALSE]

Owns(s)   == hnd[s].k \in OwnKinds
Owners(b) == Cardinality({s \in Slots : Owns(s) /\ hnd[s].b = b})
Locked(s) == \E t \in Slots : hnd[t].k # "none" /\ hnd[t].ln = s
FreeSlots  == {d \in Slots : hnd[d].k = "none"}
FreeBlocks == {b \in Blocks : blk[b].st = "none"}
Lowest(S)  == CHOOSE x \in S : \A y \in S : x <= y
FreshVal == Lowest({v \in 1..(NBlocks + 1) : \A b \in Blocks : blk[b].st = "live" => blk[b].val # v})
Rec(e) == hist' = IF KeepHist THEN Append(hist, e) ELSE hist
On(op) == op \in Ops

Release(B, b) == IF B[b].rc = 1
                 THEN [B EXCEPT ![b].rc = 0, ![b].st = "freed", ![b].val = 0,
                                ![b].edrops = @ + B[b].len, ![b].frees = @ + 1]
                 ELSE [B EXCEPT ![b].rc = @ - 1]
Mint(H, d, k, b) == [H EXCEPT ![d] = [k |-> k, b |-> b, ln |-> 0]]

\* constructors: Arc::from(Vec), collect (exact / inexact hint), UniqueArc collect, Arc::new([T; N])
HowKind(how) == CASE how = "unique_collect" -> "UnqSl" [] how = "array" -> "Arr" [] OTHER -> "Sl"
New(how, d, b, len) ==
    /\ On("New") /\ how \in {"vec", "collect_exact", "collect_inexact", "unique_collect", "array", "erased"}
    /\ how = "array" => len = ArrLen
    /\ blk' = [blk EXCEPT ![b] = [NoB EXCEPT !.st = "live", !.rc = 1, !.len = len, !.val = FreshVal]]
    /\ hnd' = Mint(hnd, d, IF how = "erased" THEN "SlH" ELSE HowKind(how), b)
    /\ res' = [NoRes EXCEPT !.op = "New", !.s = d]
    /\ Rec(<<"New", len, d, how, FreshVal>>)

Clone(s, d) ==
    /\ On("Clone") /\ hnd[s].k \in {"Sl", "SlH", "Arr"}
    /\ blk' = [blk EXCEPT ![hnd[s].b].rc = @ + 1]
    /\ hnd' = Mint(hnd, d, hnd[s].k, hnd[s].b)
    /\ res' = [NoRes EXCEPT !.op = "Clone", !.s = s]
    /\ Rec(<<"Clone", s, d, "", 0>>)

Drop(s) ==
    /\ On("Drop") /\ hnd[s].k \in {"Sl", "SlH", "UnqSl", "Arr", "BorSl"} /\ ~Locked(s)
    /\ blk' = IF Owns(s) THEN Release(blk, hnd[s].b) ELSE blk
    /\ hnd' = [hnd EXCEPT ![s] = NoH]
    /\ res' = [NoRes EXCEPT !.op = "Drop", !.s = s]
    /\ Rec(<<"Drop", s, 0, "", 0>>)

\* count-neutral conversions
ConvTable == {
    <<"Erase",        "SlH",   "Sl">>,     \* From<Arc<HeaderSlice<(), T>>> for Arc<T>
    <<"Unerase",      "Sl",    "SlH">>,    \* From<Arc<T>> for Arc<HeaderSlice<(), T>>
    <<"IntoRaw",      "Sl",    "RawSl">>,  \* Arc::into_raw
    <<"FromRawSlice", "RawSl", "Sl">>,     \* Arc::from_raw_slice
    <<"FromRaw",      "RawSl", "Sl">>,     \* Arc::from_raw on the fat pointer
    <<"Shareable",    "UnqSl", "Sl">>,     \* UniqueArc::shareable
    <<"Unsize",       "Arr",   "Sl">> }    \* unsize::Coercion::to_slice
Conv(c, s) ==
    /\ On(c[1]) /\ hnd[s].k = c[2] /\ ~Locked(s)
    /\ hnd' = [hnd EXCEPT ![s].k = c[3]]
    /\ res' = [NoRes EXCEPT !.op = c[1], !.s = s]
    /\ Rec(<<c[1], s, 0, "", 0>>)
    /\ UNCHANGED blk

\* Arc::borrow_arc on an unsized payload
Borrow(s, d) ==
    /\ On("Borrow") /\ hnd[s].k \in {"Sl", "SlH"}
    /\ hnd' = [hnd EXCEPT ![d] = [k |-> "BorSl", b |-> hnd[s].b, ln |-> s]]
    /\ res' = [NoRes EXCEPT !.op = "Borrow", !.s = s]
    /\ Rec(<<"Borrow", s, d, "", 0>>)
    /\ UNCHANGED blk

Verdict(b) == IF blk[b].rc = 1 THEN "yes" ELSE "no"
TryUnique(s) ==
    /\ On("TryUnique") /\ hnd[s].k = "Sl" /\ ~Locked(s)
    /\ hnd' = IF blk[hnd[s].b].rc = 1 THEN [hnd EXCEPT ![s].k = "UnqSl"] ELSE hnd
    /\ res' = [NoRes EXCEPT !.op = "TryUnique", !.s = s, !.verdict = Verdict(hnd[s].b)]
    /\ Rec(<<"TryUnique", s, 0, "", 0>>)
    /\ UNCHANGED blk
\* Arc::get_mut / UniqueArc DerefMut, then a write into the first element (if there is one)
GetMut(s) ==
    /\ On("GetMut") /\ hnd[s].k \in {"Sl", "SlH", "UnqSl", "Arr"} /\ ~Locked(s)
    /\ LET b == hnd[s].b IN
       /\ blk' = IF blk[b].rc = 1 /\ blk[b].len > 0 THEN [blk EXCEPT ![b].val = FreshVal] ELSE blk
       /\ res' = [NoRes EXCEPT !.op = "GetMut", !.s = s, !.verdict = Verdict(b)]
    /\ Rec(<<"GetMut", s, 0, "", FreshVal>>)
    /\ UNCHANGED hnd

Init == blk = [b \in Blocks |-> NoB] /\ hnd = [s \in Slots |-> NoH] /\ res = NoRes /\ hist = <<>>

NextLowest ==
    \/ /\ FreeSlots # {} /\ FreeBlocks # {}
       /\ \E how \in {"vec", "collect_exact", "collect_inexact", "unique_collect", "array", "erased"}, len \in 0..MaxLen :
             New(how, Lowest(FreeSlots), Lowest(FreeBlocks), len)
    \/ \E s \in Slots :
          \/ FreeSlots # {} /\ (Clone(s, Lowest(FreeSlots)) \/ Borrow(s, Lowest(FreeSlots)))
          \/ Drop(s) \/ TryUnique(s) \/ GetMut(s)
          \/ \E c \in ConvTable : Conv(c, s)
Spec == Init /\ [][NextLowest]_vars

CountAccurate == \A b \in Blocks : blk[b].st = "live" => blk[b].rc = Owners(b)
LiveIffOwned  == \A b \in Blocks : (blk[b].st = "live") <=> (Owners(b) > 0)
NoDangling    == \A s \in Slots : hnd[s].k # "none" => blk[hnd[s].b].st = "live"
DestroyedOnce ==
    \A b \in Blocks :
        /\ blk[b].st = "live"  => blk[b].edrops = 0 /\ blk[b].frees = 0
        /\ blk[b].st = "freed" => blk[b].edrops = blk[b].len /\ blk[b].frees = 1
UniqueIsSole == \A s \in Slots : hnd[s].k = "UnqSl" => blk[hnd[s].b].rc = 1
ArrLenOK == \A s \in Slots : hnd[s].k = "Arr" => blk[hnd[s].b].len = ArrLen
Invariants == CountAccurate /\ LiveIffOwned /\ NoDangling /\ DestroyedOnce /\ UniqueIsSole /\ ArrLenOK

ConvNeutral == res'.op \in {"Erase", "Unerase", "IntoRaw", "FromRawSlice", "FromRaw", "Shareable", "Unsize", "Borrow"} => blk' = blk
VerdictIffSoleOwner == res'.op \in {"GetMut", "TryUnique"} => (res'.verdict = "yes" <=> Owners(hnd[res'.s].b) = 1)
ActionsOK == [][ConvNeutral /\ VerdictIffSoleOwner]_vars

ProjBlk(B) == [b \in Blocks |-> <<B[b].st, B[b].rc, B[b].len, B[b].val, B[b].edrops, B[b].frees>>]
ProjHnd(H) == [s \in Slots |-> <<H[s].k, H[s].b>>]
ProjRes(r) == <<r.op, r.s, r.verdict, IF r.panicked THEN 1 ELSE 0>>
Proj(B, H, r) == <<ProjBlk(B), ProjHnd(H), ProjRes(r), 0>>
=============================================================================
