-------------------------------- MODULE ArcMM --------------------------------
(***************************************************************************)
(* Micro-step concurrent specification of triomphe's count protocol under  *)
(* a view-based release/acquire/relaxed memory model (promise-free RC11    *)
(* fragment).                                                              *)
(*                                                                         *)
(* One shared block: one atomic location (the count) with its modification *)
(* order `mo`, and the non-atomic payload.  Threads hold handles and run   *)
(* API operations; an operation is a continuation of micro-instructions    *)
(* built from the PROTOCOL CONSTANTS (IncProgs, DecProgs, UniqProgs), which *)
(* are not assumed but extracted from the running implementation.          *)
(*                                                                         *)
(* Memory model.  Every thread t has vector clocks cur[t] (what happens-    *)
(* before its next event), acq[t] (views picked up by relaxed loads, made   *)
(* effective by an acquire fence) and rel[t] (view at its last release      *)
(* fence).  A message in mo is [val, view, wt, wc].  A load may read ANY    *)
(* message that is not mo-older than one it has already read or one whose   *)
(* write happens-before it (stale reads are ordinary nondeterminism); an    *)
(* RMW reads the last message and continues its release sequence.  SeqCst   *)
(* is treated as AcqRel (weaker: never hides a race).                       *)
(* Payload accesses, the destructor and deallocation (a write to            *)
(* everything, the count included) are checked against vector clocks.       *)
(***************************************************************************)
EXTENDS Naturals, Sequences, FiniteSets, TLC

CONSTANTS
    NT,          \* number of threads
    MaxOps,      \* API operations per thread
    MaxInit,     \* handles a thread may hold initially
    Ops,         \* enabled API operations
    IncProgs,    \* set of programs observed for "add one owner"
    DecProgs,    \* set of <<dec, last>>: "give up one owner"; `last` (which contains the
                 \* destructor and the deallocation at their observed positions) runs iff dec read 1
    UniqProgs,   \* [api name -> set of programs] deciding "am I the only owner"
    Handoff      \* TRUE: a handle may be passed to another thread with synchronisation

VARIABLES mo, cur, acq, rel, seen, pW, pR, cA, pc, hnd, used, freed, destroyed, moved, err

vars == <<mo, cur, acq, rel, seen, pW, pR, cA, pc, hnd, used, freed, destroyed, moved, err>>

Threads == 1..NT
Zero    == [u \in Threads |-> 0]
Max(a, b)  == IF a >= b THEN a ELSE b
Join(x, y) == [u \in Threads |-> Max(x[u], y[u])]

IsAcq(o) == o \in {"acq", "acqrel", "sc"}
IsRel(o) == o \in {"rel", "acqrel", "sc"}

\* micro-instructions
I(k, d, o, sets) == [k |-> k, d |-> d, o |-> o, sets |-> sets]
IRead    == I("read", 0, "-", FALSE)
IWrite   == I("write", 0, "-", FALSE)
IDestroy == I("destroy", 0, "-", FALSE)
IFree    == I("free", 0, "-", FALSE)
IMoveOut == I("moveout", 0, "-", FALSE)
IHInc    == I("hinc", 0, "-", FALSE)
IHDec    == I("hdec", 0, "-", FALSE)
If1(a, b) == [k |-> "if1", then |-> a, else |-> b]

Idle == [op |-> "idle", prog |-> <<>>, r |-> 0]

-----------------------------------------------------------------------------
(* Continuations of the API operations, in the order the source performs them *)

ReleaseK(dp) == dp[1] \o <<If1(dp[2], <<>>)>>

Kont(op, inc, dp, uq) ==
    CASE op = "clone"   -> inc \o <<IHInc>>
      [] op = "read"    -> <<IRead>>
      [] op = "count"   -> <<I("load", 0, "rlx", FALSE)>>
      [] op = "drop"    -> <<IHDec>> \o ReleaseK(dp)
      \* get_mut / get_unique / try_unique (+DerefMut) then a write through the grant
      [] op = "get_mut" -> uq \o <<If1(<<IWrite>>, <<>>)>>
      \* try_unwrap: sole owner -> move the value out and free the block
      [] op = "try_unwrap" -> uq \o <<If1(<<IHDec, IMoveOut, IFree>>, <<>>)>>
      \* make_mut then write: in place, or clone the payload and release the old handle
      [] op = "make_mut" -> uq \o <<If1(<<IWrite>>, <<IRead, IHDec>> \o ReleaseK(dp))>>
      [] op = "unwrap_or_clone" ->
             uq \o <<If1(<<IHDec, IMoveOut, IFree>>, <<IRead, IHDec>> \o ReleaseK(dp))>>

UniqApis == {"get_mut", "try_unwrap", "make_mut", "unwrap_or_clone"}

-----------------------------------------------------------------------------
(* Memory model steps *)

Known(t, j) == mo[j].wc = 0 \/ mo[j].wc <= cur[t][mo[j].wt]
Floor(t) ==
    LET K == {j \in 1..Len(mo) : Known(t, j)} \cup {seen[t]}
    IN  CHOOSE j \in K : \A i \in K : i <= j

Tick(t) == [cur[t] EXCEPT ![t] = @ + 1]

\* conflicting accesses by other threads that are not ordered before t's next event
Unordered(t, clocks) == \E u \in Threads \ {t} : clocks[u] > cur[t][u]

SetErr(e) == err' = IF err = "none" THEN e ELSE err

\* atomic events on the count: a read-modify-write that reads the last message and writes nv
StepRmwTo(t, ins, rest, nv) ==
    LET last == mo[Len(mo)]
        c1   == Tick(t)
        rd   == IF IsAcq(ins.o) THEN Join(c1, last.view) ELSE c1
        base == IF IsRel(ins.o) THEN rd ELSE rel[t]
        view == Join(base, last.view)           \* RMWs continue the release sequence
    IN  /\ mo' = Append(mo, [val |-> nv, view |-> view, wt |-> t, wc |-> c1[t]])
        /\ cur' = [cur EXCEPT ![t] = rd]
        /\ acq' = [acq EXCEPT ![t] = IF IsAcq(ins.o) THEN @ ELSE Join(@, last.view)]
        /\ seen' = [seen EXCEPT ![t] = Len(mo) + 1]
        /\ cA' = [cA EXCEPT ![t] = c1[t]]
        /\ err' = IF err # "none" THEN err
                  ELSE IF freed THEN "use-after-free: count accessed after deallocation"
                  ELSE IF last.val = 0 /\ nv > 0 THEN "count resurrected from zero"
                  ELSE "none"
        /\ UNCHANGED <<rel, pW, pR>>
        /\ pc' = [pc EXCEPT ![t].prog = rest,
                            ![t].r = IF ins.sets THEN last.val ELSE @]

\* fetch_add(1) / fetch_sub(1)
StepRmw(t, ins, rest) ==
    StepRmwTo(t, ins, rest, IF ins.d = 1 THEN mo[Len(mo)].val + 1 ELSE mo[Len(mo)].val - 1)

StepLoad(t, ins, rest, j) ==
    LET m  == mo[j]
        c1 == Tick(t)
    IN  /\ cur' = [cur EXCEPT ![t] = IF IsAcq(ins.o) THEN Join(c1, m.view) ELSE c1]
        /\ acq' = [acq EXCEPT ![t] = IF IsAcq(ins.o) THEN @ ELSE Join(@, m.view)]
        /\ seen' = [seen EXCEPT ![t] = j]
        /\ cA' = [cA EXCEPT ![t] = c1[t]]
        /\ err' = IF err # "none" THEN err
                  ELSE IF freed THEN "use-after-free: count accessed after deallocation"
                  ELSE "none"
        /\ UNCHANGED <<mo, rel, pW, pR>>
        /\ pc' = [pc EXCEPT ![t].prog = rest,
                            ![t].r = IF ins.sets THEN m.val ELSE @]

StepStore(t, ins, rest) ==
    LET c1   == Tick(t)
        view == IF IsRel(ins.o) THEN c1 ELSE rel[t]
    IN  /\ mo' = Append(mo, [val |-> ins.d, view |-> view, wt |-> t, wc |-> c1[t]])
        /\ cur' = [cur EXCEPT ![t] = c1]
        /\ seen' = [seen EXCEPT ![t] = Len(mo) + 1]
        /\ cA' = [cA EXCEPT ![t] = c1[t]]
        /\ err' = IF err # "none" THEN err
                  ELSE IF freed THEN "use-after-free: count accessed after deallocation" ELSE "none"
        /\ UNCHANGED <<acq, rel, pW, pR>>
        /\ pc' = [pc EXCEPT ![t].prog = rest]

StepFence(t, ins, rest) ==
    LET c1 == Tick(t)
        c2 == IF IsAcq(ins.o) THEN Join(c1, acq[t]) ELSE c1
    IN  /\ cur' = [cur EXCEPT ![t] = c2]
        /\ rel' = [rel EXCEPT ![t] = IF IsRel(ins.o) THEN c2 ELSE @]
        /\ UNCHANGED <<mo, acq, seen, pW, pR, cA, err>>
        /\ pc' = [pc EXCEPT ![t].prog = rest]

\* non-atomic accesses to the payload
StepPayload(t, ins, rest) ==
    LET c1 == Tick(t)
        isW == ins.k \in {"write", "destroy"}
    IN  /\ cur' = [cur EXCEPT ![t] = c1]
        /\ pW' = IF isW THEN [pW EXCEPT ![t] = c1[t]] ELSE pW
        /\ pR' = IF isW THEN pR ELSE [pR EXCEPT ![t] = c1[t]]
        /\ err' = IF err # "none" THEN err
                  ELSE IF freed THEN "use-after-free: value accessed after deallocation"
                  ELSE IF ins.k = "destroy" /\ destroyed + moved > 0 THEN "value destroyed twice / after being moved out"
                  ELSE IF ins.k = "moveout" /\ destroyed + moved > 0 THEN "value moved out twice / after being destroyed"
                  ELSE IF Unordered(t, pW) THEN "data race: value accessed concurrently with a write"
                  ELSE IF isW /\ Unordered(t, pR) THEN "data race: value written concurrently with a read"
                  ELSE "none"
        /\ UNCHANGED <<mo, acq, rel, seen, cA>>
        /\ pc' = [pc EXCEPT ![t].prog = rest]

StepFree(t, rest) ==
    LET c1 == Tick(t) IN
    /\ cur' = [cur EXCEPT ![t] = c1]
    /\ err' = IF err # "none" THEN err
              ELSE IF freed THEN "memory released twice"
              ELSE IF Unordered(t, pW) \/ Unordered(t, pR)
                   THEN "memory released while another thread's access to the value is not ordered before it"
              ELSE IF Unordered(t, cA)
                   THEN "memory released while another thread's access to the count is not ordered before it"
              ELSE "none"
    /\ UNCHANGED <<mo, acq, rel, seen, pW, pR, cA>>
    /\ pc' = [pc EXCEPT ![t].prog = rest]

-----------------------------------------------------------------------------
(* Thread steps *)

\* resolve branches and handle bookkeeping at the head of a continuation (local, instantaneous)
RECURSIVE Norm(_, _, _)
Norm(p, r, dh) ==
    IF Len(p) = 0 THEN <<p, dh>>
    ELSE LET h == Head(p) IN
         IF h.k = "if1"  THEN Norm((IF r = 1 THEN h.then ELSE h.else) \o Tail(p), r, dh)
         ELSE IF h.k = "hinc" THEN Norm(Tail(p), r, dh + 1)
         ELSE IF h.k = "hdec" THEN Norm(Tail(p), r, dh - 1)
         ELSE <<p, dh>>

Start(t, op) ==
    /\ pc[t].op = "idle" /\ used[t] < MaxOps /\ hnd[t] > 0 /\ op \in Ops
    /\ \E inc \in IncProgs, dp \in DecProgs :
       \E uq \in (IF op \in UniqApis THEN UniqProgs[op] ELSE {<<>>}) :
          LET n == Norm(Kont(op, inc, dp, uq), 0, 0) IN
          /\ pc' = [pc EXCEPT ![t] = [op |-> op, prog |-> n[1], r |-> 0]]
          /\ hnd' = [hnd EXCEPT ![t] = @ + n[2]]
    /\ used' = [used EXCEPT ![t] = @ + 1]
    /\ UNCHANGED <<mo, cur, acq, rel, seen, pW, pR, cA, freed, destroyed, moved, err>>

\* one micro-instruction of thread t; the continuation is re-normalised afterwards
Local(t) == IF Len(pc[t].prog) = 0 THEN TRUE ELSE Head(pc[t].prog).k \in {"if1", "hinc", "hdec"}

Exec(t) ==
    /\ pc[t].op # "idle" /\ ~Local(t)
    /\ LET ins  == Head(pc[t].prog)
           rest == Tail(pc[t].prog)
       IN  /\ \/ ins.k = "rmw"   /\ StepRmw(t, ins, rest)
              \/ ins.k = "load"  /\ \E j \in Floor(t)..Len(mo) : StepLoad(t, ins, rest, j)
              \/ ins.k = "store" /\ StepStore(t, ins, rest)
              \/ ins.k = "fence" /\ StepFence(t, ins, rest)
              \/ ins.k \in {"read", "write", "destroy", "moveout"} /\ StepPayload(t, ins, rest)
              \/ ins.k = "free"  /\ StepFree(t, rest)
           /\ freed' = (freed \/ ins.k = "free")
           /\ destroyed' = destroyed + (IF ins.k = "destroy" THEN 1 ELSE 0)
           /\ moved' = moved + (IF ins.k = "moveout" THEN 1 ELSE 0)
    /\ UNCHANGED <<used>>
    /\ hnd' = hnd

\* local step: resolve the branch at the head of the continuation / finish the operation
Resolve(t) ==
    /\ pc[t].op # "idle" /\ Local(t)
    /\ LET n == Norm(pc[t].prog, pc[t].r, 0) IN
       /\ pc' = [pc EXCEPT ![t] = IF Len(n[1]) = 0 THEN Idle ELSE [@ EXCEPT !.prog = n[1]]]
       /\ hnd' = [hnd EXCEPT ![t] = @ + n[2]]
    /\ UNCHANGED <<mo, cur, acq, rel, seen, pW, pR, cA, used, freed, destroyed, moved, err>>

\* a handle passed to another thread through something that synchronises (channel, join, lock)
Pass(t, u) ==
    /\ Handoff /\ t # u /\ pc[t].op = "idle" /\ pc[u].op = "idle" /\ hnd[t] > 0
    /\ used[t] < MaxOps
    /\ used' = [used EXCEPT ![t] = @ + 1]
    /\ hnd' = [hnd EXCEPT ![t] = @ - 1, ![u] = @ + 1]
    /\ cur' = [cur EXCEPT ![t] = Tick(t), ![u] = Join(cur[u], Tick(t))]
    /\ UNCHANGED <<mo, acq, rel, seen, pW, pR, cA, pc, freed, destroyed, moved, err>>

Next ==
    /\ err = "none"
    /\ \E t \in Threads :
          \/ \E op \in Ops : Start(t, op)
          \/ Resolve(t)
          \/ Exec(t)
          \/ \E u \in Threads : Pass(t, u)

Init ==
    /\ \E h \in [Threads -> 0..MaxInit] :
          /\ \E t \in Threads : h[t] > 0
          /\ hnd = h
          /\ mo = <<[val |-> (LET S[i \in 0..NT] == IF i = 0 THEN 0 ELSE S[i - 1] + h[i] IN S[NT]),
                     view |-> Zero, wt |-> 1, wc |-> 0]>>
    /\ cur = [t \in Threads |-> Zero]
    /\ acq = [t \in Threads |-> Zero]
    /\ rel = [t \in Threads |-> Zero]
    /\ seen = [t \in Threads |-> 1]
    /\ pW = Zero /\ pR = Zero /\ cA = Zero
    /\ pc = [t \in Threads |-> Idle]
    /\ used = [t \in Threads |-> 0]
    /\ freed = FALSE /\ destroyed = 0 /\ moved = 0
    /\ err = "none"

Spec == Init /\ [][Next]_vars

-----------------------------------------------------------------------------
(* Properties *)

Total == LET S[i \in 0..NT] == IF i = 0 THEN 0 ELSE S[i - 1] + hnd[i] IN S[NT]
AllIdle == \A t \in Threads : pc[t].op = "idle"

\* C02/C03/C08/C09: no data race, no use after free, no double destruction
NoErr == err = "none"

\* C02/C09: the value is destroyed or moved out at most once
AtMostOnce == destroyed + moved <= 1

\* C02: the memory goes away only when nobody holds a handle
FreedOnlyWhenNoHandles == freed => Total = 0

\* C02/C09: when every handle is gone and every thread is done, the value was destroyed or
\* handed out exactly once and the memory released
ExactlyOnce == (AllIdle /\ Total = 0) => (freed /\ destroyed + moved = 1)

\* C04 (concurrent reading): with no operation in flight the latest count is the number of handles
CountIsHandles == (AllIdle /\ ~freed) => mo[Len(mo)].val = Total

Safety == NoErr /\ AtMostOnce /\ FreedOnlyWhenNoHandles /\ ExactlyOnce /\ CountIsHandles

=============================================================================
