-------------------------------- MODULE Swap --------------------------------
(***************************************************************************)
(* Handle-level (sequential) specification of triomphe's arc-swap support   *)
(* (src/arc_swap_support.rs: `RefCnt for Arc<T>` and `RefCnt for            *)
(* ThinArc<H, T>`), exercised through real arc_swap::ArcSwapAny cells.       *)
(*                                                                         *)
(* A cell OWNS exactly one count of the block it holds.  store / swap /     *)
(* compare_and_swap / into_inner hand counts over without creating or       *)
(* losing any; load_full adds one.  A Guard (ArcSwapAny::load) protects the *)
(* block it was loaded from: it is an owner as far as destruction is        *)
(* concerned, but arc-swap may keep it as a debt instead of a count until    *)
(* the cell it came from is overwritten (`paid`), so the count the           *)
(* implementation reports lies in [Lo(b), Hi(b)].                            *)
(*                                                                         *)
(* Everything that gates on uniqueness (is_unique, get_mut, make_mut,        *)
(* try_unwrap, the deprecated Arc::write of C15) must see the count a cell   *)
(* holds: a cell is one more owner.                                          *)
(*                                                                         *)
(* Block flavours (`how`):                                                   *)
(*   init    Arc<E>                     one payload object, destroyed with it *)
(*   uninit  Arc<MaybeUninit<E>>        never destroys what was written       *)
(*   thin    ThinArc<A, u32>            header object destroyed with it       *)
(***************************************************************************)
EXTENDS Naturals, Sequences, FiniteSets, TLC

CONSTANTS NSlots, NBlocks, NCells, Hows, Ops, KeepHist

VARIABLES blk, hnd, cell, res, hist
vars == <<blk, hnd, cell, res, hist>>

Slots  == 1..NSlots
Blocks == 1..NBlocks
Cells  == 1..NCells

NoH == [k |-> "none", b |-> 0, c |-> 0, paid |-> FALSE]
NoB == [st |-> "none", how |-> "-", rc |-> 0, val |-> 0, drops |-> 0, frees |-> 0]
NoRes == [op |-> "-", s |-> 0, verdict |-> "-", panicked |-> FALSE]

IsArc(s) == hnd[s].k = "Arc"
IsGrd(s) == hnd[s].k = "Grd"
Handles(b) == Cardinality({s \in Slots : IsArc(s) /\ hnd[s].b = b})
Guards(b)  == Cardinality({s \in Slots : IsGrd(s) /\ hnd[s].b = b})
PaidGuards(H, b) == Cardinality({s \in Slots : H[s].k = "Grd" /\ H[s].b = b /\ H[s].paid})
HeldBy(b)  == Cardinality({c \in Cells : cell[c] = b})
Owners(b)  == Handles(b) + Guards(b) + HeldBy(b)

FreeSlots  == {d \in Slots : hnd[d].k = "none"}
FreeBlocks == {b \in Blocks : blk[b].st = "none"}
Lowest(S)  == CHOOSE x \in S : \A y \in S : x <= y
FreshVal == Lowest({v \in 1..(NBlocks + 1) : \A b \in Blocks : blk[b].st = "live" => blk[b].val # v})
Rec(e) == hist' = IF KeepHist THEN Append(hist, e) ELSE hist
On(op) == op \in Ops

\* giving up one owner of block b; the last one destroys the payload (not for `uninit`) and frees the block
Release(B, b) == IF B[b].rc = 1
                 THEN [B EXCEPT ![b].rc = 0, ![b].st = "freed", ![b].val = 0,
                                ![b].drops = @ + (IF B[b].how = "uninit" THEN 0 ELSE 1), ![b].frees = @ + 1]
                 ELSE [B EXCEPT ![b].rc = @ - 1]
Mint(H, d, b) == [H EXCEPT ![d] = [NoH EXCEPT !.k = "Arc", !.b = b]]
\* cell c stops holding what it holds: the debts of the guards loaded from it are paid
Pay(H, c) == [s \in Slots |-> IF H[s].k = "Grd" /\ H[s].c = c THEN [H[s] EXCEPT !.paid = TRUE] ELSE H[s]]

-----------------------------------------------------------------------------
New(how, d, b) ==
    /\ On("New") /\ how \in Hows
    /\ blk' = [blk EXCEPT ![b] = [NoB EXCEPT !.st = "live", !.how = how, !.rc = 1,
                                             !.val = IF how = "uninit" THEN 0 ELSE FreshVal]]
    /\ hnd' = Mint(hnd, d, b)
    /\ res' = [NoRes EXCEPT !.op = "New", !.s = d]
    /\ Rec(<<"New", 0, d, how, IF how = "uninit" THEN 0 ELSE FreshVal>>)
    /\ UNCHANGED cell

Clone(s, d) ==
    /\ On("Clone") /\ IsArc(s)
    /\ blk' = [blk EXCEPT ![hnd[s].b].rc = @ + 1]
    /\ hnd' = Mint(hnd, d, hnd[s].b)
    /\ res' = [NoRes EXCEPT !.op = "Clone", !.s = s]
    /\ Rec(<<"Clone", s, d, "", 0>>)
    /\ UNCHANGED cell

\* a handle or a guard goes away
Drop(s) ==
    /\ On("Drop") /\ hnd[s].k # "none"
    /\ blk' = Release(blk, hnd[s].b)
    /\ hnd' = [hnd EXCEPT ![s] = NoH]
    /\ res' = [NoRes EXCEPT !.op = "Drop", !.s = s]
    /\ Rec(<<"Drop", s, 0, "", 0>>)
    /\ UNCHANGED cell

\* ArcSwapAny::new(handle): the cell takes the handle's count over (RefCnt::into_ptr)
CellNew(c, s) ==
    /\ On("CellNew") /\ cell[c] = 0 /\ IsArc(s)
    /\ cell' = [cell EXCEPT ![c] = hnd[s].b]
    /\ hnd' = [hnd EXCEPT ![s] = NoH]
    /\ res' = [NoRes EXCEPT !.op = "CellNew", !.s = s]
    /\ Rec(<<"CellNew", s, 0, "", c>>)
    /\ UNCHANGED blk

\* load_full: a new owning handle (RefCnt::inc)
LoadFull(c, d) ==
    /\ On("LoadFull") /\ cell[c] # 0
    /\ blk' = [blk EXCEPT ![cell[c]].rc = @ + 1]
    /\ hnd' = Mint(hnd, d, cell[c])
    /\ res' = [NoRes EXCEPT !.op = "LoadFull", !.s = d]
    /\ Rec(<<"LoadFull", 0, d, "", c>>)
    /\ UNCHANGED cell

\* load: a guard
Load(c, d) ==
    /\ On("Load") /\ cell[c] # 0
    /\ blk' = [blk EXCEPT ![cell[c]].rc = @ + 1]
    /\ hnd' = [hnd EXCEPT ![d] = [k |-> "Grd", b |-> cell[c], c |-> c, paid |-> FALSE]]
    /\ res' = [NoRes EXCEPT !.op = "Load", !.s = d]
    /\ Rec(<<"Load", 0, d, "", c>>)
    /\ UNCHANGED cell

\* Guard::into_inner: the guard becomes an owning handle
Upgrade(s) ==
    /\ On("Upgrade") /\ IsGrd(s)
    /\ hnd' = [hnd EXCEPT ![s] = [NoH EXCEPT !.k = "Arc", !.b = hnd[s].b]]
    /\ res' = [NoRes EXCEPT !.op = "Upgrade", !.s = s]
    /\ Rec(<<"Upgrade", s, 0, "", 0>>)
    /\ UNCHANGED <<blk, cell>>

SameType(c, s) == blk[cell[c]].how = blk[hnd[s].b].how

\* store: the cell takes the new handle's count over and gives up the one it held
Store(c, s) ==
    /\ On("Store") /\ cell[c] # 0 /\ IsArc(s) /\ SameType(c, s)
    /\ cell' = [cell EXCEPT ![c] = hnd[s].b]
    /\ hnd' = Pay([hnd EXCEPT ![s] = NoH], c)
    /\ blk' = Release(blk, cell[c])
    /\ res' = [NoRes EXCEPT !.op = "Store", !.s = s]
    /\ Rec(<<"Store", s, 0, "", c>>)

\* swap: as store, but the count the cell held comes back as a handle (in the same slot)
SwapIn(c, s) ==
    /\ On("Swap") /\ cell[c] # 0 /\ IsArc(s) /\ SameType(c, s)
    /\ cell' = [cell EXCEPT ![c] = hnd[s].b]
    /\ hnd' = Pay([hnd EXCEPT ![s].b = cell[c]], c)
    /\ res' = [NoRes EXCEPT !.op = "Swap", !.s = s]
    /\ Rec(<<"Swap", s, 0, "", c>>)
    /\ UNCHANGED blk

\* compare_and_swap(&current, new): `current` is only compared, `new` is consumed either way; the value returned
\* (the previous content) is dropped at once
Cas(c, s, t) ==
    /\ On("Cas") /\ cell[c] # 0 /\ IsArc(s) /\ IsArc(t) /\ s # t /\ SameType(c, s) /\ SameType(c, t)
    /\ IF cell[c] = hnd[s].b
       THEN /\ cell' = [cell EXCEPT ![c] = hnd[t].b]
            /\ hnd' = Pay([hnd EXCEPT ![t] = NoH], c)
            /\ blk' = Release(blk, cell[c])
            /\ res' = [NoRes EXCEPT !.op = "Cas", !.s = s, !.verdict = "yes"]
       ELSE /\ cell' = cell
            /\ hnd' = [hnd EXCEPT ![t] = NoH]
            /\ blk' = Release(blk, hnd[t].b)
            /\ res' = [NoRes EXCEPT !.op = "Cas", !.s = s, !.verdict = "no"]
    /\ Rec(<<"Cas", s, t, "", c>>)

\* into_inner: the cell's count comes out as a handle; the cell is gone
IntoInner(c, d) ==
    /\ On("IntoInner") /\ cell[c] # 0
    /\ cell' = [cell EXCEPT ![c] = 0]
    /\ hnd' = Pay(Mint(hnd, d, cell[c]), c)
    /\ res' = [NoRes EXCEPT !.op = "IntoInner", !.s = d]
    /\ Rec(<<"IntoInner", 0, d, "", c>>)
    /\ UNCHANGED blk

\* the cell is dropped with what it holds
CellDrop(c) ==
    /\ On("CellDrop") /\ cell[c] # 0
    /\ cell' = [cell EXCEPT ![c] = 0]
    /\ hnd' = Pay(hnd, c)
    /\ blk' = Release(blk, cell[c])
    /\ res' = [NoRes EXCEPT !.op = "CellDrop", !.s = 0]
    /\ Rec(<<"CellDrop", 0, 0, "", c>>)

\* reading through a handle or guard (the harness compares the value it sees)
Read(s) ==
    /\ On("Read") /\ hnd[s].k # "none"
    /\ res' = [NoRes EXCEPT !.op = "Read", !.s = s]
    /\ Rec(<<"Read", s, 0, "", 0>>)
    /\ UNCHANGED <<blk, hnd, cell>>

-----------------------------------------------------------------------------
(* uniqueness gates: a cell (and a guard) is one more owner *)
Sole(b) == blk[b].rc = 1
Verdict(b) == IF Sole(b) THEN "yes" ELSE "no"

IsUnique(s) ==
    /\ On("IsUnique") /\ IsArc(s)
    /\ res' = [NoRes EXCEPT !.op = "IsUnique", !.s = s, !.verdict = Verdict(hnd[s].b)]
    /\ Rec(<<"IsUnique", s, 0, "", 0>>)
    /\ UNCHANGED <<blk, hnd, cell>>

\* Arc::get_mut then a write
GetMut(s) ==
    /\ On("GetMut") /\ IsArc(s) /\ blk[hnd[s].b].how = "init"
    /\ blk' = IF Sole(hnd[s].b) THEN [blk EXCEPT ![hnd[s].b].val = FreshVal] ELSE blk
    /\ res' = [NoRes EXCEPT !.op = "GetMut", !.s = s, !.verdict = Verdict(hnd[s].b)]
    /\ Rec(<<"GetMut", s, 0, "", FreshVal>>)
    /\ UNCHANGED <<hnd, cell>>

\* the deprecated Arc::<MaybeUninit<T>>::write: panics unless the handle is the only owner
ArcWrite(s) ==
    /\ On("ArcWrite") /\ IsArc(s) /\ blk[hnd[s].b].how = "uninit"
    /\ blk' = IF Sole(hnd[s].b) THEN [blk EXCEPT ![hnd[s].b].val = FreshVal] ELSE blk
    /\ res' = [NoRes EXCEPT !.op = "ArcWrite", !.s = s, !.verdict = Verdict(hnd[s].b), !.panicked = ~Sole(hnd[s].b)]
    /\ Rec(<<"ArcWrite", s, 0, "", FreshVal>>)
    /\ UNCHANGED <<hnd, cell>>

\* Arc::make_mut then a write: in place for the only owner, else a private copy in a new block
MakeMut(s, nb) ==
    /\ On("MakeMut") /\ IsArc(s) /\ blk[hnd[s].b].how = "init"
    /\ LET b == hnd[s].b IN
       IF Sole(b)
       THEN /\ blk' = [blk EXCEPT ![b].val = FreshVal]
            /\ hnd' = hnd
            /\ res' = [NoRes EXCEPT !.op = "MakeMut", !.s = s, !.verdict = "yes"]
       ELSE /\ nb # 0
            /\ blk' = [Release(blk, b) EXCEPT ![nb] = [NoB EXCEPT !.st = "live", !.how = "init", !.rc = 1, !.val = FreshVal]]
            /\ hnd' = [hnd EXCEPT ![s].b = nb]
            /\ res' = [NoRes EXCEPT !.op = "MakeMut", !.s = s, !.verdict = "no"]
    /\ Rec(<<"MakeMut", s, 0, "", FreshVal>>)
    /\ UNCHANGED cell

\* Arc::try_unwrap: the only owner gets the value (dropped by the harness at once), anyone else keeps the handle
TryUnwrap(s) ==
    /\ On("TryUnwrap") /\ IsArc(s) /\ blk[hnd[s].b].how = "init"
    /\ IF Sole(hnd[s].b)
       THEN /\ blk' = Release(blk, hnd[s].b)
            /\ hnd' = [hnd EXCEPT ![s] = NoH]
       ELSE UNCHANGED <<blk, hnd>>
    /\ res' = [NoRes EXCEPT !.op = "TryUnwrap", !.s = s, !.verdict = Verdict(hnd[s].b)]
    /\ Rec(<<"TryUnwrap", s, 0, "", 0>>)
    /\ UNCHANGED cell

-----------------------------------------------------------------------------
Init == /\ blk = [b \in Blocks |-> NoB] /\ hnd = [s \in Slots |-> NoH] /\ cell = [c \in Cells |-> 0]
        /\ res = NoRes /\ hist = <<>>

FreeCells == {c \in Cells : cell[c] = 0}

NextLowest ==
    \/ /\ FreeSlots # {} /\ FreeBlocks # {}
       /\ \E how \in Hows : New(how, Lowest(FreeSlots), Lowest(FreeBlocks))
    \/ \E s \in Slots :
          \/ FreeSlots # {} /\ Clone(s, Lowest(FreeSlots))
          \/ Drop(s) \/ Upgrade(s) \/ Read(s) \/ IsUnique(s) \/ GetMut(s) \/ ArcWrite(s) \/ TryUnwrap(s)
          \/ MakeMut(s, IF FreeBlocks = {} THEN 0 ELSE Lowest(FreeBlocks))
          \/ FreeCells # {} /\ CellNew(Lowest(FreeCells), s)
          \/ \E c \in Cells : Store(c, s) \/ SwapIn(c, s) \/ \E t \in Slots : Cas(c, s, t)
    \/ \E c \in Cells :
          \/ FreeSlots # {} /\ (LoadFull(c, Lowest(FreeSlots)) \/ Load(c, Lowest(FreeSlots)) \/ IntoInner(c, Lowest(FreeSlots)))
          \/ CellDrop(c)
Spec == Init /\ [][NextLowest]_vars

-----------------------------------------------------------------------------
CountAccurate == \A b \in Blocks : blk[b].st = "live" => blk[b].rc = Owners(b)
LiveIffOwned  == \A b \in Blocks : (blk[b].st = "live") <=> (Owners(b) > 0)
NoDangling    == /\ \A s \in Slots : hnd[s].k # "none" => blk[hnd[s].b].st = "live"
                 /\ \A c \in Cells : cell[c] # 0 => blk[cell[c]].st = "live"
DestroyedOnce ==
    \A b \in Blocks :
        /\ blk[b].st = "live"  => blk[b].drops = 0 /\ blk[b].frees = 0
        /\ blk[b].st = "freed" => blk[b].drops = (IF blk[b].how = "uninit" THEN 0 ELSE 1) /\ blk[b].frees = 1
\* an unpaid guard only exists while the cell it came from still holds the block it protects
DebtsOnlyOnHeld == \A s \in Slots : (IsGrd(s) /\ ~hnd[s].paid) => cell[hnd[s].c] = hnd[s].b
Invariants == CountAccurate /\ LiveIffOwned /\ NoDangling /\ DestroyedOnce /\ DebtsOnlyOnHeld

\* the cell traffic never creates or loses an owner
SwapNeutral == res'.op \in {"Swap", "CellNew", "IntoInner", "Upgrade", "Read", "IsUnique"} => blk' = blk
\* a gate says yes exactly to the only owner -- a block held by a cell has at least that owner
GateIffSole == res'.op \in {"IsUnique", "GetMut", "ArcWrite", "MakeMut", "TryUnwrap"} =>
                   (res'.verdict = "yes" <=> Owners(hnd[res'.s].b) = 1)
GateRefusesHeld == res'.op \in {"IsUnique", "GetMut", "ArcWrite", "MakeMut", "TryUnwrap"} /\ HeldBy(hnd[res'.s].b) > 0
                   => res'.verdict = "no"
PanicOnlySharedWrite == res'.panicked => res'.op = "ArcWrite" /\ res'.verdict = "no" /\ blk' = blk
ActionsOK == [][SwapNeutral /\ GateIffSole /\ GateRefusesHeld /\ PanicOnlySharedWrite]_vars

\* what the implementation can report as the count of block b
Lo(B, H, C, b) == Cardinality({s \in Slots : H[s].k = "Arc" /\ H[s].b = b}) + Cardinality({c \in Cells : C[c] = b}) + PaidGuards(H, b)
Hi(B, H, C, b) == B[b].rc

ProjBlk(B, H, C) == [b \in Blocks |-> <<B[b].st, B[b].how, IF B[b].st = "live" THEN Lo(B, H, C, b) ELSE 0,
                                       IF B[b].st = "live" THEN Hi(B, H, C, b) ELSE 0, B[b].val, B[b].drops, B[b].frees>>]
ProjHnd(H) == [s \in Slots |-> <<H[s].k, H[s].b>>]
ProjCell(C) == [c \in Cells |-> C[c]]
ProjRes(r) == <<r.op, r.s, r.verdict, IF r.panicked THEN 1 ELSE 0>>
Proj(B, H, C, r) == <<ProjBlk(B, H, C), ProjHnd(H), ProjRes(r), ProjCell(C)>>
=============================================================================
