------------------------------ MODULE MC_Swap ------------------------------
EXTENDS Swap, Json
\* slots are interchangeable: the view keeps the bag of handle records
Recs == {hnd[s] : s \in {t \in Slots : hnd[t].k # "none"}}
HandleBag == [r \in Recs |-> Cardinality({s \in Slots : hnd[s] = r})]
CanonView == <<blk, cell, HandleBag>>
\* one-step memory of a no-op (refusal, propagated panic): see MC_Slices
VARIABLE quiet
NoOpTag == IF UNCHANGED <<blk, hnd, cell>> /\ (res'.panicked \/ res'.verdict = "no")
           THEN <<res'.op, res'.panicked, res'.verdict>> ELSE <<>>
MCSpec == Init /\ quiet = <<>> /\ [][NextLowest /\ quiet' = NoOpTag]_<<vars, quiet>>
MCView == <<CanonView, quiet>>

Emit == PrintT(<<"BEH", ToJson([h |-> hist', x |-> Proj(blk', hnd', cell', res')])>>)
=============================================================================
