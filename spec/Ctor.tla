-------------------------------- MODULE Ctor --------------------------------
(***************************************************************************)
(* The slice constructors as small state machines, with the faults C07     *)
(* quantifies over: the iterator panics at its k-th `next`, misreports its *)
(* length (len() / size_hint() too long, too short, changing between       *)
(* calls), or the allocator fails.                                         *)
(*                                                                         *)
(*   fhi        Arc::from_header_and_iter(header, items)                   *)
(*   thin       ThinArc::from_header_and_iter(header, items)               *)
(*   collect    items.collect::<Arc<[T]>>() / UniqueArc<[T]>  (FromIterator)*)
(*   vec        Arc::from_header_and_vec / Arc::<[T]>::from(Vec) (cap >= len)*)
(*                                                                         *)
(* One behaviour per case; every step is one thing the source does (one     *)
(* call into user code, one write, one check).  Elements are numbered       *)
(* 1..a (a = what the iterator really yields).  fate[i] of element i:       *)
(*   "src"   still owned by the source (iterator / Vec)                     *)
(*   "slot"  written into the block                                         *)
(*   "tmp"   pulled and held in a temporary                                 *)
(*   "gone"  destroyed (exactly once: `drops` counts)                       *)
(***************************************************************************)
EXTENDS Naturals, Sequences, FiniteSets, TLC

CONSTANTS
    Lens,        \* actual lengths examined (honest cases)
    FaultLens,   \* the lengths for which every fault parameter is enumerated
    Ctors,
    NObservers,  \* number of (handle kind, observer method) pairs the harness knows
    NReleases,   \* number of handle kinds whose last release is tried with a panicking destructor
    NZst         \* number of paths a zero-sized payload with a destructor is taken through

MaxOf(S) == CHOOSE x \in S : \A y \in S : y <= x
MaxLen == MaxOf(Lens) + 2

VARIABLES
    c,        \* the case: [ctor, a, k, l1, l2, lo, up, cap, afail]
    pc,       \* program counter
    n,        \* length the constructor decided to allocate for
    calls,    \* calls to next() so far
    fate,     \* element -> fate
    drops,    \* element -> number of destructor runs
    hdr,      \* "arg" | "block" | "gone"
    hdrops,
    blk,      \* "none" | "building" | "handed" | "leaked" | "freed"
    vecbuf,   \* intermediate Vec buffer of the collect fallback: "none" | "live" | "freed"
    result    \* "-" | "ok" | "panic" | "abort"

vars == <<c, pc, n, calls, fate, drops, hdr, hdrops, blk, vecbuf, result>>

Elems == 1..c.a

\* ---- the cases -----------------------------------------------------------
\* k: the k-th call of next() panics (0: never).  l1, l2: what len() / the lower size hint say at the
\* first and second time the constructor asks.  lo/up: first size_hint (up = 99 stands for None, 98 for a correct but huge bound).
\* reported values within 2 of the actual length
Near(a) == (IF a >= 2 THEN a - 2 ELSE 0)..(a + 2)
Mk(ctor, a, k, l1, l2, lo, up, cap, f) ==
    [ctor |-> ctor, a |-> a, k |-> k, l1 |-> l1, l2 |-> l2, lo |-> lo, up |-> up, cap |-> cap, afail |-> f]
On(ct, S) == IF ct \in Ctors THEN S ELSE {}
\* every fault, for the small lengths: |reported - actual| <= 2, k = 1..calls+1 (0: no panic)
\* 97 stands for a reported length whose byte size wraps around the address space (usize::MAX / size_of::<T>() + 1):
\* an over-report like any other, which must be refused before a block is requested
Wrap == 97
FaultCases ==
    On("fhi", {Mk("fhi", a, 0, Wrap, Wrap, Wrap, Wrap, a, FALSE) : a \in FaultLens}) \cup
    On("thin", {Mk("thin", a, 0, Wrap, Wrap, Wrap, Wrap, a, FALSE) : a \in FaultLens}) \cup
    On("collect", {Mk("collect", a, 0, Wrap, Wrap, Wrap, Wrap, a, FALSE) : a \in FaultLens}) \cup
    On("fhi", UNION {{Mk("fhi", a, k, l, l, l, l, a, f) : k \in 0..(a + 2), l \in Near(a), f \in BOOLEAN} : a \in FaultLens}) \cup
    On("thin", UNION {{Mk("thin", a, k, l1, l2, l1, l1, a, FALSE) : k \in 0..(a + 2), l1 \in Near(a), l2 \in Near(a)} : a \in FaultLens}) \cup
    On("collect", UNION {{Mk("collect", a, k, lo, l2, lo, up, a, FALSE) :
                            k \in 0..(a + 2), lo \in Near(a) \cup {0}, up \in Near(a) \cup {98, 99}, l2 \in Near(a)} : a \in FaultLens})
\* honest inputs, for every length (well beyond any internal boundary)
HonestCases ==
    {Mk(ct, a, 0, a, a, a, a, a, FALSE) : ct \in {"fhi", "thin", "slice", "str"}, a \in Lens} \cup
    UNION {{Mk("collect", a, 0, h[1], a, h[1], h[2], a, FALSE) : h \in {<<a, a>>, <<0, 99>>, <<0, a + 1>>, <<a, 99>>, <<0, 98>>, <<a, 98>>}} : a \in Lens} \cup
    {Mk("vec", a, 0, a, a, a, a, a + s, FALSE) : a \in Lens, s \in {0, 1, 7}}
\* a comparison / hash / format impl of the payload panics while a handle of kind k is being
\* compared, hashed or formatted (k indexes the harness's list of (handle kind, trait method))
ObserverCases == {Mk("observe", 0, k, 0, 0, 0, 0, 0, FALSE) : k \in 1..NObservers}
\* the payload's destructor panics while the last handle of kind k is released: the block is still
\* returned to the allocator, once
ReleaseCases == {Mk("release", 0, k, 0, 0, 0, 0, 0, FALSE) : k \in 1..NReleases}
\* an ArcUnion whose two payload types have the same size and alignment, only one of them with a
\* destructor: the last release runs the destructor of the variant it holds
UnionDropCases == {Mk("union_drop", 0, k, 0, 0, 0, 0, 0, FALSE) : k \in 1..4}
\* a zero-sized payload with a destructor (and a counted Clone) through path k of the sized handles: every value
\* created -- the original and each clone -- is destroyed exactly once, the block (which still holds the count)
\* is returned once
ZstCases == {Mk("zst", 0, k, 0, 0, 0, 0, 0, FALSE) : k \in 1..NZst}
Cases == FaultCases \cup HonestCases \cup ObserverCases \cup ReleaseCases \cup UnionDropCases \cup ZstCases

\* cases within the property's quantifier (the sets above are already restricted to |reported - actual| <= 2)
InScope(x) ==
    /\ x.ctor \in Ctors
    /\ x.ctor = "collect" => x.lo <= x.up

Init ==
    /\ c \in {x \in Cases : InScope(x)}
    /\ pc = "start" /\ n = 0 /\ calls = 0
    /\ fate = [i \in 1..MaxLen |-> "src"] /\ drops = [i \in 1..MaxLen |-> 0]
    /\ hdr = "arg" /\ hdrops = 0 /\ blk = "none" /\ vecbuf = "none" /\ result = "-"

\* ---- primitive effects ---------------------------------------------------
Destroy(F, D, S) == <<[i \in 1..MaxLen |-> IF i \in S THEN "gone" ELSE F[i]],
                      [i \in 1..MaxLen |-> IF i \in S THEN D[i] + 1 ELSE D[i]]>>
With(S, f)  == {i \in Elems : fate[i] = f /\ i \in S}
All(f)      == {i \in Elems : fate[i] = f}

\* unwinding out of the constructor: the source iterator is dropped (what it still owns is destroyed
\* once), temporaries are destroyed, a header still in an argument is destroyed; what was already
\* written into the half-built block is LEAKED with the block (documented)
Unwind(res) ==
    LET dd == Destroy(fate, drops, All("src") \cup All("tmp")) IN
    /\ fate' = dd[1] /\ drops' = dd[2]
    /\ hdr' = IF hdr = "arg" THEN "gone" ELSE hdr
    /\ hdrops' = hdrops + (IF hdr = "arg" THEN 1 ELSE 0)
    /\ blk' = IF blk = "building" THEN "leaked" ELSE blk
    /\ vecbuf' = IF vecbuf = "live" THEN "freed" ELSE vecbuf
    /\ result' = res /\ pc' = "done"
    /\ UNCHANGED <<c, n>>

\* ---- from_header_and_iter ------------------------------------------------
\* assert_ne!(size_of::<T>(), 0) happens first (zero-sized elements are a separate, static case)
Start ==
    /\ pc = "start"
    /\ CASE c.ctor = "fhi"  -> /\ n' = c.l1 /\ pc' = "alloc" /\ UNCHANGED <<calls, fate, drops, hdr, hdrops, blk, vecbuf, result>>
         \* ThinArc::from_header_and_iter: HeaderWithLength::new(header, items.len()) then Arc::from_header_and_iter
         [] c.ctor = "thin" -> /\ n' = c.l2 /\ pc' = "alloc" /\ UNCHANGED <<calls, fate, drops, hdr, hdrops, blk, vecbuf, result>>
         \* FromIterator: exact hint -> fast path (len() is asked again), else collect into a Vec first
         [] c.ctor = "collect" ->
               IF c.lo = c.up
               THEN /\ n' = c.l2 /\ pc' = "alloc" /\ UNCHANGED <<calls, fate, drops, hdr, hdrops, blk, vecbuf, result>>
               ELSE /\ pc' = "collecting" /\ vecbuf' = "live" /\ UNCHANGED <<n, calls, fate, drops, hdr, hdrops, blk, result>>
         \* observers: the panic (cases 49..80: the error of a failing formatter sink or payload impl; 81: a panicking Default impl under Arc::default) propagates, nothing else
         \* happens (the handles and their values pre-exist)
         [] c.ctor = "observe" -> /\ result' = "panic" /\ pc' = "done"
                                  /\ UNCHANGED <<n, calls, fate, drops, hdr, hdrops, blk, vecbuf>>
         \* last release with a panicking destructor: drop_slow's Box frees the block during the unwind
         [] c.ctor = "release" -> /\ result' = "panic" /\ pc' = "done" /\ blk' = "freed"
                                  /\ hdr' = "gone" /\ hdrops' = 1
                                  /\ UNCHANGED <<n, calls, fate, drops, vecbuf>>
         \* typed release of an ArcUnion: the held variant's destructor, once, and the block freed
         [] c.ctor = "union_drop" -> /\ result' = "ok" /\ pc' = "done" /\ blk' = "freed"
                                     /\ hdr' = "gone" /\ hdrops' = 1
                                     /\ UNCHANGED <<n, calls, fate, drops, vecbuf>>
         \* a zero-sized payload taken through one path of the sized handles: like any other value it is destroyed
         \* once, and the block that holds the count is freed
         [] c.ctor = "zst" -> /\ result' = "ok" /\ pc' = "done" /\ blk' = "freed"
                              /\ hdr' = "gone" /\ hdrops' = 1
                              /\ UNCHANGED <<n, calls, fate, drops, vecbuf>>
         [] c.ctor = "vec" -> /\ n' = c.a /\ pc' = "alloc" /\ vecbuf' = "live"
                              /\ UNCHANGED <<calls, fate, drops, hdr, hdrops, blk, result>>
         \* from_header_and_slice / From<&[T]> / from_header_and_str / From<&str> / From<String>:
         \* bulk copy of Copy data, nothing moves
         [] c.ctor \in {"slice", "str"} -> /\ n' = c.a /\ pc' = "alloc"
                                          /\ UNCHANGED <<calls, fate, drops, hdr, hdrops, blk, vecbuf, result>>
    /\ UNCHANGED c

\* allocate_for_header_and_slice(n); a null return goes to handle_alloc_error (process abort)
Alloc ==
    /\ pc = "alloc"
    /\ IF c.afail
       THEN /\ result' = "abort" /\ pc' = "done" /\ UNCHANGED <<blk, hdr>>
       ELSE /\ blk' = "building" /\ hdr' = "block"          \* ptr::write(header)
            /\ pc' = (IF c.ctor \in {"vec", "slice", "str"} THEN "memcpy" ELSE "loop") /\ UNCHANGED result
    /\ UNCHANGED <<c, n, calls, fate, drops, hdrops, vecbuf>>

Written == Cardinality(All("slot"))

\* one iteration of `for _ in 0..num_items { ptr::write(current, items.next().expect(..)) }`
LoopStep ==
    /\ pc = "loop" /\ Written < n
    /\ calls' = calls + 1
    /\ IF c.k = calls + 1 THEN Unwind("panic")                                    \* next() panics
       ELSE IF calls + 1 <= c.a
            THEN /\ fate' = [fate EXCEPT ![calls + 1] = "slot"]                    \* Some(x): written
                 /\ UNCHANGED <<c, pc, n, drops, hdr, hdrops, blk, vecbuf, result>>
            ELSE Unwind("panic")                                                   \* None: "over-reported"

\* assert!(items.next().is_none(), "under-reported")
EndCheck ==
    /\ pc = "loop" /\ Written = n
    /\ calls' = calls + 1
    /\ IF c.k = calls + 1 THEN Unwind("panic")
       ELSE IF calls + 1 <= c.a
            THEN \* an extra element came out: it is a temporary, destroyed; then the assertion unwinds
                 LET d1 == Destroy(fate, drops, {calls + 1})
                     d2 == Destroy(d1[1], d1[2], {i \in Elems : d1[1][i] = "src"}) IN
                 /\ fate' = d2[1] /\ drops' = d2[2]
                 /\ blk' = "leaked" /\ result' = "panic" /\ pc' = "done"
                 /\ UNCHANGED <<c, n, hdr, hdrops, vecbuf>>
            ELSE /\ pc' = (IF c.ctor = "thin" THEN "into_thin" ELSE "handed")
                 /\ UNCHANGED <<c, n, fate, drops, hdr, hdrops, blk, vecbuf, result>>

\* the Arc exists; the exhausted iterator is dropped (owns nothing any more)
Handed ==
    /\ pc = "handed"
    /\ blk' = "handed" /\ result' = "ok" /\ pc' = "done"
    /\ UNCHANGED <<c, n, calls, fate, drops, hdr, hdrops, vecbuf>>

\* Arc::into_thin: assert_eq!(header.length (= l1), slice.len() (= n)); the unwind drops the Arc properly
IntoThin ==
    /\ pc = "into_thin"
    /\ IF c.l1 = n
       THEN /\ blk' = "handed" /\ result' = "ok" /\ pc' = "done"
            /\ UNCHANGED <<fate, drops, hdr, hdrops>>
       ELSE LET dd == Destroy(fate, drops, All("slot")) IN
            /\ fate' = dd[1] /\ drops' = dd[2] /\ hdr' = "gone" /\ hdrops' = hdrops + 1
            /\ blk' = "freed" /\ result' = "panic" /\ pc' = "done"
    /\ UNCHANGED <<c, n, calls, vecbuf>>

\* ---- collect fallback: iter.collect::<Vec<_>>() then Arc::from(vec) -------
CollectStep ==
    /\ pc = "collecting"
    /\ calls' = calls + 1
    /\ IF c.k = calls + 1
       THEN \* next() panics while the Vec is being filled: the Vec drops what it holds, the iterator the rest
            LET dd == Destroy(fate, drops, All("src") \cup All("tmp")) IN
            /\ fate' = dd[1] /\ drops' = dd[2] /\ vecbuf' = "freed" /\ result' = "panic" /\ pc' = "done"
            /\ UNCHANGED <<c, n, hdr, hdrops, blk>>
       ELSE IF calls + 1 <= c.a
            THEN /\ fate' = [fate EXCEPT ![calls + 1] = "tmp"]       \* now owned by the Vec
                 /\ UNCHANGED <<c, pc, n, drops, hdr, hdrops, blk, vecbuf, result>>
            ELSE /\ n' = c.a /\ pc' = "alloc2"
                 /\ UNCHANGED <<c, fate, drops, hdr, hdrops, blk, vecbuf, result>>

Alloc2 ==
    /\ pc = "alloc2"
    /\ blk' = "building" /\ hdr' = "block" /\ pc' = "memcpy"
    /\ UNCHANGED <<c, n, calls, fate, drops, hdrops, vecbuf, result>>

\* ptr::copy_nonoverlapping(src, dst, len); v.set_len(0); drop(v): elements move, the buffer is freed
Memcpy ==
    /\ pc = "memcpy"
    /\ fate' = [i \in 1..MaxLen |-> IF i \in Elems THEN "slot" ELSE fate[i]]
    /\ vecbuf' = (IF vecbuf = "live" THEN "freed" ELSE vecbuf) /\ blk' = "handed" /\ result' = "ok" /\ pc' = "done"
    /\ UNCHANGED <<c, n, calls, drops, hdr, hdrops>>

Next == Start \/ Alloc \/ LoopStep \/ EndCheck \/ Handed \/ IntoThin \/ CollectStep \/ Alloc2 \/ Memcpy
Spec == Init /\ [][Next]_vars

-----------------------------------------------------------------------------
(* Properties *)

Done == pc = "done"

\* C07: nothing is ever destroyed twice, and nothing that is not an object is destroyed
AtMostOnce == \A i \in 1..MaxLen : drops[i] <= 1 /\ (i > c.a => drops[i] = 0) /\ hdrops <= 1

\* C06/C07: a handle is produced only when every slot it exposes was written, in order, from the
\* input, and the recorded length is the slice length
NoUninitExposed ==
    (Done /\ result = "ok" /\ c.ctor \notin {"union_drop", "zst"}) =>
        /\ n = c.a
        /\ \A i \in Elems : fate[i] = "slot"
        /\ hdr = "block" /\ blk = "handed"
        /\ c.ctor = "thin" => c.l1 = n

\* C06: honest inputs always succeed
Honest ==
    /\ c.k = 0 /\ ~c.afail
    /\ IF c.ctor = "collect"
       THEN \/ c.lo = c.up /\ c.lo = c.a /\ c.l2 = c.a
            \/ c.lo < c.up /\ c.lo <= c.a /\ (c.up = 99 \/ c.a <= c.up)
       ELSE c.l1 = c.a /\ c.l2 = c.a
HonestSucceeds == (Done /\ Honest) => result = "ok"

\* C06: owned inputs are moved, the source's own storage is released
SourceReleased == Done => vecbuf \in {"none", "freed"}

\* C07: after a panic every element is either destroyed once or leaked inside the leaked block;
\* the only loss is the half-built block
PanicOutcome ==
    (Done /\ result = "panic" /\ c.ctor # "release") =>
        /\ \A i \in Elems : fate[i] \in {"gone", "slot"}
        /\ (\E i \in Elems : fate[i] = "slot") => blk \in {"leaked"}
        /\ blk \in {"none", "leaked", "freed"}
        /\ blk = "freed" => (\A i \in Elems : fate[i] = "gone") /\ hdr = "gone"

\* C07: allocation failure ends in the allocation-error abort, before anything is written
AllocFailAborts == (Done /\ c.afail) => (result = "abort" /\ blk = "none")

\* C05: whatever the destructor does, the last release returns the block, once
ReleaseFrees == (Done /\ c.ctor \in {"release", "union_drop", "zst"}) => (blk = "freed" /\ hdrops = 1)

Inv == ReleaseFrees /\ AtMostOnce /\ NoUninitExposed /\ HonestSucceeds /\ SourceReleased /\ PanicOutcome /\ AllocFailAborts

\* what the implementation must show for the case (exported at `done`)
Outcome == [ctor |-> c.ctor, a |-> c.a, k |-> c.k, l1 |-> c.l1, l2 |-> c.l2, lo |-> c.lo, up |-> c.up, cap |-> c.cap,
            afail |-> IF c.afail THEN 1 ELSE 0,
            result |-> result,
            leak_ok |-> [i \in 1..MaxLen |-> IF i \in Elems /\ fate[i] = "slot" /\ result = "panic" THEN 1 ELSE 0],
            block |-> blk, hdr |-> hdr, calls |-> calls]

=============================================================================
