------------------------------ MODULE MC_Ctor ------------------------------
EXTENDS Ctor, Json
\* one line per case, printed when its behaviour reaches `done`
Export == Done => PrintT(<<"CASE", ToJson(Outcome)>>)
=============================================================================
