SPECIFICATION Spec
CONSTANTS
  NSlots = 3
  NBlocks = 2
  MaxFrames = 1
  CountBits = 8
  KeepHist = TRUE
  Hows = {"new", "newB", "unique"}
  Ops = {"New","Clone","CloneArc","Drop","IntoRaw","FromRaw","IntoOff","FromOff","FromFirst","FromSecond","Shareable","Borrow","Enter","Exit","IsUnique","TryUnique","GetMut","UqWrite","MakeMut","TryUnwrap","IntoInner","UnwrapOrClone"}
VIEW CanonView
INVARIANT Invariants
PROPERTY ActionsOK
ACTION_CONSTRAINT Emit
CHECK_DEADLOCK FALSE
