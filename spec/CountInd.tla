------------------------------ MODULE CountInd ------------------------------
(***************************************************************************)
(* Reduced integer / finite-set core of the handle-level specifications:   *)
(* the count word of a block equals the number of owning handles, a block   *)
(* is live exactly while it has an owner, non-owning handles (borrows) point *)
(* at live blocks whose lender is still there.  Written for Apalache: the    *)
(* invariant IndInv is inductive, i.e. it is proved for every reachable      *)
(* state of any depth (for the given numbers of slots and blocks) instead of  *)
(* being enumerated.                                                         *)
(***************************************************************************)
EXTENDS Integers, FiniteSets

CONSTANTS
    \* @type: Set(Int);
    Slots,
    \* @type: Set(Int);
    Blocks

VARIABLES
    \* @type: Int -> Int;
    rc,
    \* @type: Int -> Bool;
    live,
    \* @type: Int -> Bool;
    everLive,
    \* @type: Int -> Int;
    hb,
    \* @type: Int -> Bool;
    own,
    \* @type: Int -> Int;
    ln

ConstInit == Slots = 1..4 /\ Blocks = 1..3

Used(s)   == hb[s] # 0
Owners(b) == Cardinality({s \in Slots : Used(s) /\ own[s] /\ hb[s] = b})
Locked(s) == \E t \in Slots : Used(t) /\ ln[t] = s

Init ==
    /\ rc = [b \in Blocks |-> 0] /\ live = [b \in Blocks |-> FALSE] /\ everLive = [b \in Blocks |-> FALSE]
    /\ hb = [s \in Slots |-> 0] /\ own = [s \in Slots |-> FALSE] /\ ln = [s \in Slots |-> 0]

\* constructor: a never-used block gets count 1 and one owning handle
New(d, b) ==
    /\ ~Used(d) /\ ~everLive[b]
    /\ rc' = [rc EXCEPT ![b] = 1] /\ live' = [live EXCEPT ![b] = TRUE] /\ everLive' = [everLive EXCEPT ![b] = TRUE]
    /\ hb' = [hb EXCEPT ![d] = b] /\ own' = [own EXCEPT ![d] = TRUE] /\ ln' = [ln EXCEPT ![d] = 0]
\* clone-style operation from any handle (owning or lent)
Clone(s, d) ==
    /\ Used(s) /\ ~Used(d)
    /\ rc' = [rc EXCEPT ![hb[s]] = @ + 1]
    /\ hb' = [hb EXCEPT ![d] = hb[s]] /\ own' = [own EXCEPT ![d] = TRUE] /\ ln' = [ln EXCEPT ![d] = 0]
    /\ UNCHANGED <<live, everLive>>
\* a borrow (ArcBorrow, or the transient of a with_arc frame): no count step, pins its lender
Borrow(s, d) ==
    /\ Used(s) /\ ~Used(d)
    /\ hb' = [hb EXCEPT ![d] = hb[s]] /\ own' = [own EXCEPT ![d] = FALSE] /\ ln' = [ln EXCEPT ![d] = s]
    /\ UNCHANGED <<rc, live, everLive>>
\* release of an owning handle: decrement; the one that observes 1 frees the block
Drop(s) ==
    /\ Used(s) /\ own[s] /\ ~Locked(s)
    /\ rc' = [rc EXCEPT ![hb[s]] = @ - 1]
    /\ live' = [live EXCEPT ![hb[s]] = (rc[hb[s]] # 1)]
    /\ hb' = [hb EXCEPT ![s] = 0] /\ own' = [own EXCEPT ![s] = FALSE] /\ ln' = [ln EXCEPT ![s] = 0]
    /\ UNCHANGED everLive
\* the end of a borrow
Unborrow(s) ==
    /\ Used(s) /\ ~own[s] /\ ~Locked(s)
    /\ hb' = [hb EXCEPT ![s] = 0] /\ ln' = [ln EXCEPT ![s] = 0]
    /\ UNCHANGED <<rc, live, everLive, own>>

Next ==
    \/ \E d \in Slots, b \in Blocks : New(d, b)
    \/ \E s \in Slots, d \in Slots : Clone(s, d) \/ Borrow(s, d)
    \/ \E s \in Slots : Drop(s) \/ Unborrow(s)

TypeOK ==
    /\ rc \in [Blocks -> Int] /\ live \in [Blocks -> BOOLEAN] /\ everLive \in [Blocks -> BOOLEAN]
    /\ hb \in [Slots -> Blocks \union {0}] /\ own \in [Slots -> BOOLEAN] /\ ln \in [Slots -> Slots \union {0}]

\* a borrow's lender chain ends at an owner of the same block, so the block cannot be freed under it
IndInv ==
    /\ TypeOK
    /\ \A b \in Blocks : /\ live[b] => everLive[b]
                         /\ live[b] => rc[b] = Owners(b) /\ rc[b] >= 1
                         /\ ~live[b] => Owners(b) = 0
    /\ \A s \in Slots : /\ Used(s) => live[hb[s]]
                        /\ ~Used(s) => (~own[s] /\ ln[s] = 0)
                        /\ (Used(s) /\ own[s]) => ln[s] = 0
                        \* a non-owning handle has a lender, on the same block, and the lender is an owner or
                        \* itself lent from one (depth 2 suffices for borrows of frame transients)
                        /\ (Used(s) /\ ~own[s]) =>
                              /\ ln[s] \in Slots /\ ln[s] # s /\ Used(ln[s]) /\ hb[ln[s]] = hb[s]
                              /\ (own[ln[s]] \/ (ln[ln[s]] \in Slots /\ Used(ln[ln[s]]) /\ hb[ln[ln[s]]] = hb[s]
                                                   /\ (own[ln[ln[s]]] \/ (ln[ln[ln[s]]] \in Slots /\ Used(ln[ln[ln[s]]]) /\ own[ln[ln[ln[s]]]]
                                                                          /\ hb[ln[ln[ln[s]]]] = hb[s]))))

\* C04 / C01 as stated
CountAccurate == \A b \in Blocks : live[b] => rc[b] = Owners(b)
NoDangling    == \A s \in Slots : Used(s) => live[hb[s]]
=============================================================================
