----------------------------- MODULE MC_Compare -----------------------------
EXTENDS Compare, Json
\* the reference table shipped to the implementation: for every ordered pair of values, what the
\* values answer
Code(r) == CASE r = "lt" -> 0 [] r = "eq" -> 1 [] r = "gt" -> 2 [] OTHER -> 3
Row == <<p.x.h, p.x.s, p.x.rec, p.y.h, p.y.s, p.y.rec, IF ValEq(p.x, p.y) THEN 1 ELSE 0, Code(ValCmp(p.x, p.y))>>
Export == (~p.same) => PrintT(<<"ROW", ToJson(Row)>>)
=============================================================================
