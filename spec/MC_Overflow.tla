---------------------------- MODULE MC_Overflow ----------------------------
(* W-bit scale model of the count word for C16: exhaustive exploration with Forget, and the outcome
   table of a clone-style operation for every value of the count word. *)
EXTENDS Triomphe, Json
PlainView == <<blk, hnd, frames, aborted>>
ASSUME PrintT(<<"TABLE", ToJson([rc \in 0..(Modulus - 1) |-> CloneOutcome(rc)])>>)
=============================================================================
