-------------------------------- MODULE Thin --------------------------------
(***************************************************************************)
(* Handle-level (sequential) specification of triomphe, header-slice /     *)
(* ThinArc family.  Same structure as Triomphe.tla: the count word `rc` is *)
(* only changed by RcInc / Release in source order; handle kinds own a     *)
(* count or do not; invariants relate the two.                             *)
(*                                                                         *)
(* A block is an ArcInner<HeaderSlice<HeaderWithLength<H>, [T]>>: a header *)
(* object, `len` elements, and the recorded length `rec` next to the       *)
(* header.  The public constructors let `rec` differ from `len`; a ThinArc *)
(* may only ever exist for rec = len, because it re-fattens its pointer    *)
(* with `rec`.                                                             *)
(*                                                                         *)
(* Handle kinds                                                            *)
(*   Fat   Arc<HeaderSlice<HeaderWithLength<H>,[T]>>                       *)
(*   Prot  Arc<HeaderSliceWithLengthProtected<H,T>>                        *)
(*   Thin  ThinArc<H,T>       RawThin  *const c_void (into_raw / RefCnt)   *)
(*   TFat  &Arc<..> lent by ThinArc::with_arc          -- not owning       *)
(*   TMut  &mut Arc<Protected> lent by with_arc_mut    -- stands for the   *)
(*         ThinArc's own count while the frame is open                     *)
(***************************************************************************)
EXTENDS Naturals, Sequences, FiniteSets, TLC

CONSTANTS NSlots, NBlocks, MaxFrames, MaxLen, Ops, KeepHist

VARIABLES blk, hnd, frames, res, hist
vars == <<blk, hnd, frames, res, hist>>

Slots  == 1..NSlots
Blocks == 1..NBlocks
OwnKinds  == {"Fat", "Prot", "Thin", "RawThin"}
LendKinds == {"TFat", "TMut"}
Kinds == OwnKinds \cup LendKinds

NoH == [k |-> "none", b |-> 0, ln |-> 0, tf |-> 0]
NoB == [st |-> "none", rc |-> 0, len |-> 0, rec |-> 0, val |-> 0, hdrops |-> 0, edrops |-> 0, frees |-> 0]
NoRes == [op |-> "-", s |-> 0, verdict |-> "-", panicked |-> FALSE]

\* a ThinArc mutably lent to an open with_arc_mut frame: its own pointer field is stale until the
\* frame's guard writes the transient's pointer back; meanwhile the transient stands for its count
MutLent(s) == \E t \in Slots : hnd[t].k = "TMut" /\ hnd[t].ln = s
Owns(s)   == (hnd[s].k \in OwnKinds /\ ~MutLent(s)) \/ hnd[s].k = "TMut"
Owners(b) == Cardinality({s \in Slots : Owns(s) /\ hnd[s].b = b})
Locked(s) == \E t \in Slots : hnd[t].k # "none" /\ hnd[t].ln = s
FreeSlots  == {d \in Slots : hnd[d].k = "none"}
FreeBlocks == {b \in Blocks : blk[b].st = "none"}
Lowest(S)  == CHOOSE x \in S : \A y \in S : x <= y
FreshVal == Lowest({v \in 1..(NBlocks + 1) : \A b \in Blocks : blk[b].st = "live" => blk[b].val # v})

Rec(e) == hist' = IF KeepHist THEN Append(hist, e) ELSE hist
On(op) == op \in Ops

RcInc(B, b)   == [B EXCEPT ![b].rc = @ + 1]
\* drop_inner + drop_slow: the header and each of the `len` elements are destroyed, the block freed
Release(B, b) == IF B[b].rc = 1
                 THEN [B EXCEPT ![b].rc = 0, ![b].st = "freed", ![b].val = 0,
                                ![b].hdrops = @ + 1, ![b].edrops = @ + B[b].len, ![b].frees = @ + 1]
                 ELSE [B EXCEPT ![b].rc = @ - 1]
Mint(H, d, k, b) == [H EXCEPT ![d] = [k |-> k, b |-> b, ln |-> 0, tf |-> 0]]

-----------------------------------------------------------------------------
(* Constructors *)

\* Arc::from_header_and_iter / _vec with HeaderWithLength::new(h, rec): any recorded length
NewFat(how, d, b, len, rec) ==
    /\ On("NewFat") /\ how \in {"iter", "vec"}
    /\ blk' = [blk EXCEPT ![b] = [NoB EXCEPT !.st = "live", !.rc = 1, !.len = len, !.rec = rec, !.val = FreshVal]]
    /\ hnd' = Mint(hnd, d, "Fat", b)
    /\ res' = [NoRes EXCEPT !.op = "NewFat", !.s = d]
    /\ Rec(<<"NewFat", len, d, how, FreshVal, rec>>)
    /\ UNCHANGED frames

\* ThinArc::from_header_and_iter: records items.len() itself
NewThin(d, b, len) ==
    /\ On("NewThin")
    /\ blk' = [blk EXCEPT ![b] = [NoB EXCEPT !.st = "live", !.rc = 1, !.len = len, !.rec = len, !.val = FreshVal]]
    /\ hnd' = Mint(hnd, d, "Thin", b)
    /\ res' = [NoRes EXCEPT !.op = "NewThin", !.s = d]
    /\ Rec(<<"NewThin", len, d, "iter", FreshVal, len>>)
    /\ UNCHANGED frames

-----------------------------------------------------------------------------
(* Clone / drop: ThinArc's go through with_protected_arc / protected_from_thin to Arc's *)

CloneTo(k) == CASE k = "TFat" -> "Fat" [] k = "TMut" -> "Prot" [] OTHER -> k

Clone(s, d) ==
    /\ On("Clone") /\ hnd[s].k \in {"Fat", "Prot", "Thin", "TFat", "TMut"}
    /\ ~MutLent(s)                  \* &mut-borrowed by the open frame: not even &self methods
    /\ blk' = RcInc(blk, hnd[s].b)
    /\ hnd' = Mint(hnd, d, CloneTo(hnd[s].k), hnd[s].b)
    /\ res' = [NoRes EXCEPT !.op = "Clone", !.s = s]
    /\ Rec(<<"Clone", s, d, "", 0, 0>>)
    /\ UNCHANGED frames

\* Clone::clone_from(&mut s, &t)
CloneFrom(s, t) ==
    /\ On("CloneFrom") /\ s # t /\ ~Locked(s) /\ ~MutLent(t)
    /\ hnd[s].k \in {"Fat", "Prot", "Thin"} /\ hnd[t].k = hnd[s].k
    /\ blk' = Release(RcInc(blk, hnd[t].b), hnd[s].b)
    /\ hnd' = [hnd EXCEPT ![s].b = hnd[t].b]
    /\ res' = [NoRes EXCEPT !.op = "CloneFrom", !.s = s]
    /\ Rec(<<"CloneFrom", s, t, "", 0, 0>>)
    /\ UNCHANGED frames

Drop(s) ==
    /\ On("Drop") /\ hnd[s].k \in {"Fat", "Prot", "Thin"} /\ ~Locked(s)
    /\ blk' = Release(blk, hnd[s].b)
    /\ hnd' = [hnd EXCEPT ![s] = NoH]
    /\ res' = [NoRes EXCEPT !.op = "Drop", !.s = s]
    /\ Rec(<<"Drop", s, 0, "", 0, 0>>)
    /\ UNCHANGED frames

-----------------------------------------------------------------------------
(* thin <-> fat conversions: count-neutral, except the refusal *)

\* Arc::into_thin: assert_eq!(recorded length, slice length); the assertion's unwind drops `a`
IntoThin(s) ==
    /\ On("IntoThin") /\ hnd[s].k = "Fat" /\ ~Locked(s)
    /\ LET b == hnd[s].b IN
       IF blk[b].rec = blk[b].len
       THEN /\ hnd' = [hnd EXCEPT ![s].k = "Thin"]
            /\ blk' = blk
            /\ res' = [NoRes EXCEPT !.op = "IntoThin", !.s = s]
       ELSE /\ hnd' = [hnd EXCEPT ![s] = NoH]
            /\ blk' = Release(blk, b)
            /\ res' = [NoRes EXCEPT !.op = "IntoThin", !.s = s, !.panicked = TRUE]
    /\ Rec(<<"IntoThin", s, 0, "", 0, 0>>)
    /\ UNCHANGED frames

ConvTable == {
    <<"FromThin",      "Thin",    "Fat">>,       \* Arc::from_thin
    <<"ProtFromThin",  "Thin",    "Prot">>,      \* Arc::protected_from_thin
    <<"ProtIntoThin",  "Prot",    "Thin">>,      \* Arc::protected_into_thin
    <<"ThinIntoRaw",   "Thin",    "RawThin">>,   \* ThinArc::into_raw
    <<"ThinFromRaw",   "RawThin", "Thin">>,      \* ThinArc::from_raw
    <<"ThinIntoPtr",   "Thin",    "RawThin">>,   \* arc_swap::RefCnt::into_ptr
    <<"ThinFromPtr",   "RawThin", "Thin">> }     \* arc_swap::RefCnt::from_ptr

Conv(c, s) ==
    /\ On(c[1]) /\ hnd[s].k = c[2] /\ ~Locked(s)
    /\ hnd' = [hnd EXCEPT ![s].k = c[3]]
    /\ res' = [NoRes EXCEPT !.op = c[1], !.s = s]
    /\ Rec(<<c[1], s, 0, "", 0, 0>>)
    /\ UNCHANGED <<blk, frames>>

-----------------------------------------------------------------------------
(* Callback frames *)

\* ThinArc::with_arc (api "with_arc": &Arc) / with_arc_mut (api "with_arc_mut": &mut Arc<Protected>)
Enter(s, d, api) ==
    /\ On("Enter") /\ hnd[s].k = "Thin" /\ Len(frames) < MaxFrames /\ ~MutLent(s)
    /\ api \in {"with_arc", "with_arc_mut"}
    /\ api = "with_arc_mut" => ~Locked(s)
    /\ frames' = Append(frames, [lender |-> s, trans |-> d, api |-> api])
    /\ hnd' = [hnd EXCEPT ![d] = [k |-> IF api = "with_arc" THEN "TFat" ELSE "TMut",
                                  b |-> hnd[s].b, ln |-> s, tf |-> Len(frames) + 1]]
    /\ res' = [NoRes EXCEPT !.op = "Enter", !.s = s]
    /\ Rec(<<"Enter", s, d, api, 0, 0>>)
    /\ UNCHANGED blk

\* return or unwind: with_arc_mut's guard writes the (possibly replaced) pointer back into the
\* ThinArc either way (DropGuard::drop: `this.ptr = transient.p`)
Exit(mode) ==
    /\ On("Exit") /\ Len(frames) > 0
    /\ LET top == frames[Len(frames)] IN
       /\ ~Locked(top.trans)
       /\ hnd' = [hnd EXCEPT ![top.trans] = NoH, ![top.lender].b = hnd[top.trans].b]
       /\ frames' = SubSeq(frames, 1, Len(frames) - 1)
       /\ res' = [NoRes EXCEPT !.op = "Exit", !.s = top.lender, !.panicked = (mode = "panic")]
    /\ Rec(<<"Exit", 0, 0, mode, 0, 0>>)
    /\ UNCHANGED blk

\* inside with_arc_mut: `*arc = other` -- the old Arc value is dropped (the ThinArc's count on the
\* old block is released), the ThinArc now stands for `other`'s count
Replace(t, src) ==
    /\ On("Replace") /\ hnd[t].k = "TMut" /\ hnd[src].k = "Prot" /\ ~Locked(src) /\ ~Locked(t)
    /\ blk' = Release(blk, hnd[t].b)
    /\ hnd' = [hnd EXCEPT ![t].b = hnd[src].b, ![src] = NoH]
    /\ res' = [NoRes EXCEPT !.op = "Replace", !.s = t]
    /\ Rec(<<"Replace", t, src, "", 0, 0>>)
    /\ UNCHANGED frames

\* inside with_arc_mut: mem::swap(arc, &mut other)
Swap(t, o) ==
    /\ On("Swap") /\ hnd[t].k = "TMut" /\ hnd[o].k = "Prot" /\ ~Locked(o) /\ ~Locked(t)
    /\ hnd' = [hnd EXCEPT ![t].b = hnd[o].b, ![o].b = hnd[t].b]
    /\ res' = [NoRes EXCEPT !.op = "Swap", !.s = t]
    /\ Rec(<<"Swap", t, o, "", 0, 0>>)
    /\ UNCHANGED <<blk, frames>>

-----------------------------------------------------------------------------
(* Uniqueness-gated mutation (never of the recorded length) *)

Verdict(b) == IF blk[b].rc = 1 THEN "yes" ELSE "no"

GetMut(s) ==
    /\ On("GetMut") /\ hnd[s].k \in {"Fat", "Prot", "TMut"} /\ ~Locked(s)
    /\ LET b == hnd[s].b IN
       /\ blk' = IF blk[b].rc = 1 THEN [blk EXCEPT ![b].val = FreshVal] ELSE blk
       /\ res' = [NoRes EXCEPT !.op = "GetMut", !.s = s, !.verdict = Verdict(b)]
    /\ Rec(<<"GetMut", s, 0, "", FreshVal, 0>>)
    /\ UNCHANGED <<hnd, frames>>

-----------------------------------------------------------------------------
Init ==
    /\ blk = [b \in Blocks |-> NoB]
    /\ hnd = [s \in Slots |-> NoH]
    /\ frames = <<>> /\ res = NoRes /\ hist = <<>>

RecChoices(len) == {len, len + 1} \cup (IF len > 0 THEN {len - 1, 0} ELSE {})

NextLowest ==
    \/ /\ FreeSlots # {} /\ FreeBlocks # {}
       /\ \/ \E how \in {"iter", "vec"}, len \in 0..MaxLen : \E rec \in RecChoices(len) :
                NewFat(how, Lowest(FreeSlots), Lowest(FreeBlocks), len, rec)
          \/ \E len \in 0..MaxLen : NewThin(Lowest(FreeSlots), Lowest(FreeBlocks), len)
    \/ \E s \in Slots :
          \/ FreeSlots # {} /\ \/ Clone(s, Lowest(FreeSlots))
                               \/ \E api \in {"with_arc", "with_arc_mut"} : Enter(s, Lowest(FreeSlots), api)
          \/ Drop(s)
          \/ \E t \in Slots : CloneFrom(s, t)
          \/ IntoThin(s)
          \/ \E c \in ConvTable : Conv(c, s)
          \/ GetMut(s)
          \/ \E o \in Slots : Replace(s, o) \/ Swap(s, o)
    \/ \E mode \in {"ok", "panic"} : Exit(mode)

Spec == Init /\ [][NextLowest]_vars

-----------------------------------------------------------------------------
(* Invariants *)

TypeOK ==
    /\ \A b \in Blocks : blk[b].st \in {"none", "live", "freed"}
    /\ \A s \in Slots : hnd[s].k \in Kinds \cup {"none"}

\* While a with_arc_mut frame is open its transient IS the ThinArc's count: count it once
CountAccurate == \A b \in Blocks : blk[b].st = "live" => blk[b].rc = Owners(b)
LiveIffOwned  == \A b \in Blocks : (blk[b].st = "live") <=> (Owners(b) > 0)
\* (a mutably lent ThinArc cannot be looked at until its frame is closed)
NoDangling    == \A s \in Slots : (hnd[s].k # "none" /\ ~MutLent(s)) => blk[hnd[s].b].st = "live"
DestroyedOnce ==
    \A b \in Blocks :
        /\ blk[b].st = "live"  => blk[b].hdrops = 0 /\ blk[b].edrops = 0 /\ blk[b].frees = 0
        /\ blk[b].st = "freed" => blk[b].hdrops = 1 /\ blk[b].edrops = blk[b].len /\ blk[b].frees = 1
\* C10: every thin handle (and everything lent from one) sits on a block whose recorded length is
\* the real slice length
ThinLenInvariant ==
    \A s \in Slots : (hnd[s].k \in {"Thin", "RawThin", "Prot", "TFat", "TMut"} /\ ~MutLent(s)) =>
        blk[hnd[s].b].rec = blk[hnd[s].b].len
LendersOK ==
    /\ \A s \in Slots : hnd[s].k \in LendKinds => hnd[hnd[s].ln].k = "Thin"
    /\ \A s \in Slots : hnd[s].k = "TFat" => hnd[hnd[s].ln].b = hnd[s].b
    /\ \A i \in 1..Len(frames) : hnd[frames[i].trans].tf = i /\ hnd[frames[i].trans].ln = frames[i].lender
QuiescentClean == (\A s \in Slots : ~Owns(s)) => \A b \in Blocks : blk[b].st # "live"

Invariants == TypeOK /\ CountAccurate /\ LiveIffOwned /\ NoDangling /\ DestroyedOnce
              /\ ThinLenInvariant /\ LendersOK /\ QuiescentClean

\* C10: conversions never touch a count; the refusal releases exactly the refused handle
ConvNeutral ==
    res'.op \in {"FromThin", "ProtFromThin", "ProtIntoThin", "ThinIntoRaw", "ThinFromRaw", "ThinIntoPtr",
                 "ThinFromPtr", "Enter", "Exit", "Swap"} => blk' = blk
\* C10: whatever the callback did to the lent Arc, and however it ended, the ThinArc ends up on
\* the block the lent Arc ended up on
WriteBack ==
    res'.op = "Exit" => \A i \in 1..Len(frames) :
        (i = Len(frames) /\ frames[i].api = "with_arc_mut") =>
            hnd'[frames[i].lender].b = hnd[frames[i].trans].b
RefusalReleases ==
    (res'.op = "IntoThin" /\ res'.panicked) =>
        /\ hnd'[res'.s] = NoH
        /\ \/ blk'[hnd[res'.s].b].rc = blk[hnd[res'.s].b].rc - 1
           \/ blk'[hnd[res'.s].b].st = "freed"
VerdictIffSoleOwner ==
    res'.op = "GetMut" => (res'.verdict = "yes" <=> Owners(hnd[res'.s].b) = 1)

ActionProps == ConvNeutral /\ RefusalReleases /\ VerdictIffSoleOwner /\ WriteBack
ActionsOK == [][ActionProps]_vars

ProjBlk(B) == [b \in Blocks |-> <<B[b].st, B[b].rc, B[b].len, B[b].rec, B[b].val, B[b].hdrops, B[b].edrops, B[b].frees>>]
ProjHnd(H) == [s \in Slots |-> <<H[s].k, H[s].b>>]
ProjRes(r) == <<r.op, r.s, r.verdict, IF r.panicked THEN 1 ELSE 0>>
Proj(B, H, r) == <<ProjBlk(B), ProjHnd(H), ProjRes(r), 0>>

=============================================================================
