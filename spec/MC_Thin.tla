----------------------------- MODULE MC_Thin -----------------------------
(* Exhaustive configuration of Triomphe: canonical VIEW (slot permutations and the
   observation variables removed) and per-edge export of concrete behaviours. *)
EXTENDS Thin, Json

Children(s) == {t \in Slots : hnd[t].k # "none" /\ hnd[t].ln = s}

\* a handle together with the forest of handles borrowed from it, slot numbers erased
RECURSIVE Node(_)
Node(s) ==
    LET C == Children(s)
        N == {Node(t) : t \in C}
    IN  <<hnd[s].k, hnd[s].b, hnd[s].tf,
          [n \in N |-> Cardinality({t \in C : Node(t) = n})]>>

Roots == {s \in Slots : hnd[s].k # "none" /\ hnd[s].ln = 0}
RootBag == LET N == {Node(s) : s \in Roots}
           IN  [n \in N |-> Cardinality({s \in Roots : Node(s) = n})]

CanonView == <<blk, Len(frames), RootBag>>

\* same states, slots kept (for cross-checking the canonical view against SYMMETRY-free counts)
PlainView == <<blk, hnd, frames>>

\* An action that leaves the specification's state unchanged (a refusal, a propagated panic) may still have
\* touched hidden implementation state. `quiet` remembers, for one step, that the last action was such a
\* no-op and which one; it is part of the VIEW, so the successors of a state are ALSO explored (and exported)
\* with the no-op as the preceding step of the history. This gives path coverage of length two through
\* self-loop edges, which plain edge coverage of the state graph does not.
VARIABLE quiet
NoOpTag == IF UNCHANGED <<blk, hnd, frames>> /\ (res'.panicked \/ res'.verdict = "no")
           THEN <<res'.op, res'.panicked, res'.verdict>> ELSE <<>>
MCSpec == Init /\ quiet = <<>> /\ [][NextLowest /\ quiet' = NoOpTag]_<<vars, quiet>>
MCView == <<CanonView, quiet>>

Emit == PrintT(<<"BEH", ToJson([h |-> hist', x |-> Proj(blk', hnd', res')])>>)

=============================================================================
