----------------------------- MODULE MC_Thin -----------------------------
(* Exhaustive configuration of Triomphe: canonical VIEW (slot permutations and the
   observation variables removed) and per-edge export of concrete behaviours. *)
EXTENDS Thin, Json

Children(s) == {t \in Slots : hnd[t].k # "none" /\ hnd[t].ln = s}

\* a handle together with the forest of handles borrowed from it, slot numbers erased
RECURSIVE Node(_)
Node(s) ==
    LET C == Children(s)
        N == {Node(t) : t \in C}
    IN  <<hnd[s].k, hnd[s].b, hnd[s].tf,
          [n \in N |-> Cardinality({t \in C : Node(t) = n})]>>

Roots == {s \in Slots : hnd[s].k # "none" /\ hnd[s].ln = 0}
RootBag == LET N == {Node(s) : s \in Roots}
           IN  [n \in N |-> Cardinality({s \in Roots : Node(s) = n})]

CanonView == <<blk, Len(frames), RootBag>>

\* same states, slots kept (for cross-checking the canonical view against SYMMETRY-free counts)
PlainView == <<blk, hnd, frames>>

Emit == PrintT(<<"BEH", ToJson([h |-> hist', x |-> Proj(blk', hnd', res')])>>)

=============================================================================
