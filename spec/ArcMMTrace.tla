----------------------------- MODULE ArcMMTrace -----------------------------
(***************************************************************************)
(* Trace specification for ArcMM: a concurrent execution of the REAL crate, *)
(* recorded by the tracer (one event per count operation, payload access,   *)
(* destructor run, deallocation and handle hand-over, in the total order of  *)
(* the tracer lock), is consumed event by event through ArcMM's own          *)
(* memory-model steps.  Happens-before is recomputed from the logged         *)
(* ORDERINGS only (the tracer lock is invisible to the model), so this is a   *)
(* happens-before race check of the observed execution under the model, as   *)
(* well as a check of its count arithmetic and of ArcMM's safety invariants  *)
(* at every step.                                                            *)
(***************************************************************************)
EXTENDS ArcMM, Json, IOUtils, TLCExt

Rec == ndJsonDeserialize(IOEnv.TRACE)

VARIABLE l          \* next event to consume
tvars == <<vars, l>>

Ev == Rec[l]
T  == Ev.t

\* the first record describes the initial distribution of handles
TraceInit ==
    /\ l = 2
    /\ hnd = [t \in Threads |-> Rec[1].init[t]]
    /\ mo = <<[val |-> Rec[1].count, view |-> Zero, wt |-> 1, wc |-> 0]>>
    /\ cur = [t \in Threads |-> Zero] /\ acq = [t \in Threads |-> Zero] /\ rel = [t \in Threads |-> Zero]
    /\ seen = [t \in Threads |-> 1]
    /\ pW = Zero /\ pR = Zero /\ cA = Zero
    /\ pc = [t \in Threads |-> Idle]
    /\ used = [t \in Threads |-> 0]
    /\ freed = FALSE /\ destroyed = 0 /\ moved = 0
    /\ err = "none"

Ins == I(Ev.e, IF "d" \in DOMAIN Ev THEN Ev.d ELSE 0, IF "o" \in DOMAIN Ev THEN Ev.o ELSE "-", FALSE)

Counters ==
    /\ freed' = (freed \/ Ev.e = "free")
    /\ destroyed' = destroyed + (IF Ev.e = "destroy" THEN 1 ELSE 0)
    /\ moved' = moved + (IF Ev.e = "moveout" THEN 1 ELSE 0)

Consume ==
    /\ l <= Len(Rec)
    /\ l' = l + 1
    /\ \/ /\ Ev.e = "rmw"
          \* atomicity: the value the real RMW read is the last in modification order
          /\ mo[Len(mo)].val = Ev.seen
          /\ StepRmw(T, Ins, <<>>) /\ Counters /\ UNCHANGED <<hnd, used>>
       \* a successful compare_exchange / a swap: an RMW that installs Ev.new (a failed compare_exchange is
       \* logged as the load it is)
       \/ /\ Ev.e = "cas"
          /\ mo[Len(mo)].val = Ev.seen
          /\ StepRmwTo(T, Ins, <<>>, Ev.new) /\ Counters /\ UNCHANGED <<hnd, used>>
       \/ /\ Ev.e = "load"
          \* the value read must be one the memory model allows this thread to read
          /\ \E j \in Floor(T)..Len(mo) : mo[j].val = Ev.seen /\ StepLoad(T, Ins, <<>>, j)
          /\ Counters /\ UNCHANGED <<hnd, used>>
       \/ /\ Ev.e = "store"
          /\ StepStore(T, Ins, <<>>) /\ Counters /\ UNCHANGED <<hnd, used>>
       \/ /\ Ev.e = "fence"
          /\ StepFence(T, Ins, <<>>) /\ Counters /\ UNCHANGED <<hnd, used>>
       \/ /\ Ev.e \in {"read", "write", "destroy"}
          /\ StepPayload(T, Ins, <<>>) /\ Counters /\ UNCHANGED <<hnd, used>>
       \* the value was handed to the caller (try_unwrap / into_inner / unwrap_or_clone succeeded). The
       \* hook fires when the call returns, i.e. after the block was freed; the move's own read of the
       \* value is ordered like the deallocation that followed it on the same thread (checked there)
       \/ /\ Ev.e = "moveout"
          /\ moved' = moved + 1
          /\ err' = IF err # "none" THEN err
                    ELSE IF destroyed + moved > 0 THEN "value moved out twice / after being destroyed" ELSE "none"
          /\ UNCHANGED <<mo, cur, acq, rel, seen, pW, pR, cA, pc, hnd, used, freed, destroyed>>
       \/ /\ Ev.e = "free"
          /\ StepFree(T, <<>>) /\ Counters /\ UNCHANGED <<hnd, used>>
       \* the runner's own bookkeeping: a thread now holds one more / one fewer handle to the block
       \/ /\ Ev.e \in {"hinc", "hdec"}
          /\ hnd' = [hnd EXCEPT ![T] = IF Ev.e = "hinc" THEN @ + 1 ELSE @ - 1]
          /\ UNCHANGED <<mo, cur, acq, rel, seen, pW, pR, cA, pc, used, freed, destroyed, moved, err>>
       \* an API call begins / ends on thread T (quiescence is "no call in flight")
       \/ /\ Ev.e \in {"start", "end"}
          /\ pc' = [pc EXCEPT ![T] = IF Ev.e = "start" THEN [op |-> Ev.op, prog |-> <<>>, r |-> 0] ELSE Idle]
          /\ UNCHANGED <<mo, cur, acq, rel, seen, pW, pR, cA, hnd, used, freed, destroyed, moved, err>>
       \* a handle handed to another thread through something that synchronises (spawn / join / channel)
       \/ /\ Ev.e = "pass"
          /\ hnd' = [hnd EXCEPT ![T] = @ - 1, ![Ev.to] = @ + 1]
          /\ cur' = [cur EXCEPT ![T] = Tick(T), ![Ev.to] = Join(cur[Ev.to], Tick(T))]
          /\ UNCHANGED <<mo, acq, rel, seen, pW, pR, cA, pc, used, freed, destroyed, moved, err>>
       \* a new run starts (several recorded runs are concatenated in one file): the previous one must have
       \* ended clean; everything is re-initialised from this record
       \/ /\ Ev.e = "init"
          /\ hnd' = [t \in Threads |-> Ev.init[t]]
          /\ mo' = <<[val |-> Ev.count, view |-> Zero, wt |-> 1, wc |-> 0]>>
          /\ cur' = [t \in Threads |-> Zero] /\ acq' = [t \in Threads |-> Zero] /\ rel' = [t \in Threads |-> Zero]
          /\ seen' = [t \in Threads |-> 1]
          /\ pW' = Zero /\ pR' = Zero /\ cA' = Zero
          /\ pc' = [t \in Threads |-> Idle]
          /\ freed' = FALSE /\ destroyed' = 0 /\ moved' = 0
          /\ err' = IF err # "none" THEN err
                    ELSE IF ~(AllIdle /\ Total = 0 /\ freed /\ destroyed + moved = 1)
                         THEN "a run ended with handles outstanding, memory not released, or the value not destroyed / moved out exactly once"
                         ELSE "none"
          /\ UNCHANGED used
       \* a join: everything thread T did happens-before what thread `to` does next
       \/ /\ Ev.e = "sync"
          /\ cur' = [cur EXCEPT ![T] = Tick(T), ![Ev.to] = Join(cur[Ev.to], Tick(T))]
          /\ UNCHANGED <<mo, acq, rel, seen, pW, pR, cA, pc, hnd, used, freed, destroyed, moved, err>>

TraceSpec == TraceInit /\ [][Consume]_tvars

\* the safety part evaluated at every consumed event
TraceSafety == NoErr /\ AtMostOnce /\ FreedOnlyWhenNoHandles /\ CountIsHandles
\* at the end of the trace: everything released, exactly once
TraceEnd == l > Len(Rec) => ExactlyOnce

\* acceptance: every event was consumed; otherwise print the first event the model cannot follow
TraceAccepted ==
    LET d == TLCGet("stats").diameter IN
    IF d = Len(Rec) THEN TRUE
    ELSE Print(<<"TRACE-REJECTED at event", d + 1, Rec[d + 1]>>, FALSE)

=============================================================================
