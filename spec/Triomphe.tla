------------------------------ MODULE Triomphe ------------------------------
(***************************************************************************)
(* Handle-level (sequential) specification of triomphe, sized family.      *)
(*                                                                         *)
(* State = the mechanism the code manipulates (the count word `rc` of each *)
(* block, which is only ever changed by the primitive steps RcInc/Release  *)
(* in the order the source performs them) next to the abstract ownership   *)
(* the properties talk about (which handles exist, of which kind, to which *)
(* block; a handle kind either owns one count or does not).  The           *)
(* invariants relate the two halves.                                       *)
(*                                                                         *)
(* One action per public API call (the call's return is the linearization  *)
(* point of a sequential library); callback-taking APIs are two actions,   *)
(* Enter.. / Exit, with arbitrary actions in between (the callback body).  *)
(*                                                                         *)
(* Handle kinds                                                            *)
(*   Arc  Arc<T>            Off  OffsetArc<T>      Uni  ArcUnion<A,B>      *)
(*   Unq  UniqueArc<T>      Raw  *const T leaked by into_raw / RefCnt      *)
(*   Dyn  Arc<dyn Trait>    RawDyn *const dyn Trait                        *)
(*   UnqDyn UniqueArc<dyn Trait>   BorDyn ArcBorrow<dyn Trait> (unsize)     *)
(*   Bor  ArcBorrow<T> (also the arms of ArcUnionBorrow)   -- not owning   *)
(*   TArc / TOff  the &Arc<T> / &OffsetArc<T> lent to a with_arc-style     *)
(*               callback                                   -- not owning  *)
(***************************************************************************)
EXTENDS Naturals, Sequences, FiniteSets, TLC

CONSTANTS
    NSlots,      \* handle slots of the client program
    NBlocks,     \* allocations a behaviour may make (never reused)
    MaxFrames,   \* nesting depth of callback frames
    Ops,         \* enabled operation names (per-property configurations)
    Hows,        \* enabled constructor variants
    CountBits,   \* width W of the modelled count word
    KeepHist     \* record the stimuli (exhaustive export) or not (trace checking)

VARIABLES
    blk,      \* block id -> record (mechanism: rc; observation: val, drops, frees, out)
    hnd,      \* slot -> handle record
    frames,   \* stack of open callback frames
    res,      \* observable result of the last call
    hist,     \* stimuli so far (hidden from fingerprints by the VIEW)
    aborted   \* process terminated by the overflow guard

vars == <<blk, hnd, frames, res, hist, aborted>>

Slots  == 1..NSlots
Blocks == 1..NBlocks

OwnKinds   == {"Arc", "Off", "Uni", "Unq", "Raw", "RawDyn", "Dyn", "UnqDyn"}
LendKinds  == {"Bor", "BorDyn", "TArc", "TOff"}
Kinds      == OwnKinds \cup LendKinds
Modulus    == 2 ^ CountBits
MaxRefcount == 2 ^ (CountBits - 1) - 1        \* isize::MAX of a W-bit machine

NoH == [k |-> "none", b |-> 0, ln |-> 0, tf |-> 0]
NoB == [st |-> "none", ty |-> "-", rc |-> 0, val |-> 0, drops |-> 0,
        out |-> FALSE, frees |-> 0, leaked |-> 0]
NoRes == [op |-> "-", s |-> 0, verdict |-> "-", panicked |-> FALSE, ncl |-> 0, seen |-> 0]

Owns(s)    == hnd[s].k \in OwnKinds
Owners(b)  == Cardinality({s \in Slots : Owns(s) /\ hnd[s].b = b})
\* a handle somebody borrows from (ArcBorrow, or the transient of an open frame)
Locked(s)  == \E t \in Slots : hnd[t].k # "none" /\ hnd[t].ln = s

FreeSlots  == {d \in Slots : hnd[d].k = "none"}
FreeBlocks == {b \in Blocks : blk[b].st = "none"}
Lowest(S)  == CHOOSE x \in S : \A y \in S : x <= y

\* a payload value different from the value of every live block
FreshVal == Lowest({v \in 1..(NBlocks + 1) :
                      \A b \in Blocks : blk[b].st = "live" => blk[b].val # v})

Rec(e) == hist' = IF KeepHist THEN Append(hist, e) ELSE hist
On(op) == op \in Ops /\ ~aborted

-----------------------------------------------------------------------------
(* Primitive steps on the block table *)

RcInc(B, b)   == [B EXCEPT ![b].rc = (@ + 1) % Modulus]
\* drop_inner: fetch_sub; the caller that observed 1 destroys the payload and frees the block
Release(B, b) == IF B[b].rc = 1
                 THEN [B EXCEPT ![b].rc = 0, ![b].st = "freed", ![b].val = 0,
                                ![b].drops = @ + 1, ![b].frees = @ + 1]
                 ELSE [B EXCEPT ![b].rc = (@ + Modulus - 1) % Modulus]
\* UniqueArc::into_inner: move the payload out, free the block, run no destructor
MoveOut(B, b) == [B EXCEPT ![b].rc = 0, ![b].st = "freed", ![b].val = 0,
                           ![b].out = TRUE, ![b].frees = @ + 1]
Fresh(ty, v)  == [NoB EXCEPT !.st = "live", !.ty = ty, !.rc = 1, !.val = v]

Mint(H, d, k, b)        == [H EXCEPT ![d] = [k |-> k, b |-> b, ln |-> 0, tf |-> 0]]
MintLent(H, d, k, b, l) == [H EXCEPT ![d] = [k |-> k, b |-> b, ln |-> l, tf |-> 0]]

-----------------------------------------------------------------------------
(* Constructors: Arc::new, Arc::from(T), Arc::from(Box<T>), Default, UniqueArc::new *)

\* "default": Arc::default(); "from": Arc::from(T); "box"/"boxB": Arc::from(Box<T>)
HowKind(how) == IF how \in {"unique", "uniqueB"} THEN "Unq" ELSE "Arc"
HowTy(how)   == IF how \in {"newB", "uniqueB", "boxB"} THEN "B" ELSE "A"

New(how, d, b) ==
    /\ On("New") /\ how \in Hows
    /\ blk' = [blk EXCEPT ![b] = Fresh(HowTy(how), FreshVal)]
    /\ hnd' = Mint(hnd, d, HowKind(how), b)
    /\ res' = [NoRes EXCEPT !.op = "New", !.s = d]
    /\ Rec(<<"New", 0, d, how, FreshVal>>)
    /\ UNCHANGED <<frames, aborted>>

-----------------------------------------------------------------------------
(* Clone-style operations: exactly one RcInc, guarded against overflow *)

CloneTo(k) == CASE k = "TArc" -> "Arc" [] k = "TOff" -> "Off" [] OTHER -> k

\* what a clone-style operation does when it finds the count word at rc
CloneOutcome(rc) == IF rc > MaxRefcount THEN "abort" ELSE "ok"

\* Arc::clone: fetch_add; abort if the value read exceeds MAX_REFCOUNT
DoClone(opname, s, d, newk) ==
    LET b == hnd[s].b IN
    /\ res' = [NoRes EXCEPT !.op = opname, !.s = s]
    /\ blk' = RcInc(blk, b)
    /\ IF CloneOutcome(blk[b].rc) = "abort"
       THEN aborted' = TRUE /\ hnd' = hnd
       ELSE aborted' = aborted /\ hnd' = Mint(hnd, d, newk, b)
    /\ UNCHANGED frames

\* handle types with a Clone impl (which adds an owner): a UniqueArc can not be duplicated, a raw pointer is not a handle
CloneKinds == {"Arc", "Off", "Uni", "Dyn", "TArc", "TOff"}
\* ... and the ones that are Copy (they own nothing): ArcBorrow
CopyKinds == {"Bor", "BorDyn"}
Clone(s, d) ==
    /\ On("Clone") /\ hnd[s].k \in CloneKinds
    /\ DoClone("Clone", s, d, CloneTo(hnd[s].k))
    /\ Rec(<<"Clone", s, d, "", 0>>)

\* OffsetArc::clone_arc, ArcBorrow::clone_arc
CloneArc(s, d) ==
    /\ On("CloneArc") /\ hnd[s].k \in {"Off", "Bor", "TOff"}
    /\ DoClone("CloneArc", s, d, "Arc")
    /\ Rec(<<"CloneArc", s, d, "", 0>>)

\* Clone::clone_from(&mut s, &t): s ends up as a clone of t; what s held before is released
\* (the default `*self = source.clone()`; Vec<Handle>::clone_from reaches it)
CloneFrom(s, t) ==
    /\ On("CloneFrom") /\ s # t /\ ~Locked(s)
    /\ hnd[s].k \in {"Arc", "Off", "Uni", "Dyn"} /\ hnd[t].k = hnd[s].k
    /\ blk[hnd[s].b].ty = blk[hnd[t].b].ty \/ hnd[s].k \in {"Uni", "Dyn"}
    /\ res' = [NoRes EXCEPT !.op = "CloneFrom", !.s = s]
    /\ blk' = Release(RcInc(blk, hnd[t].b), hnd[s].b)
    /\ hnd' = [hnd EXCEPT ![s].b = hnd[t].b]
    /\ Rec(<<"CloneFrom", s, t, "", 0>>)
    /\ UNCHANGED <<frames, aborted>>

-----------------------------------------------------------------------------
(* Release of a handle *)

Drop(s) ==
    /\ On("Drop") /\ hnd[s].k \in (OwnKinds \ {"Raw", "RawDyn"}) \cup {"Bor", "BorDyn"}
    /\ ~Locked(s)
    /\ blk' = IF Owns(s) THEN Release(blk, hnd[s].b) ELSE blk
    /\ hnd' = [hnd EXCEPT ![s] = NoH]
    /\ res' = [NoRes EXCEPT !.op = "Drop", !.s = s]
    /\ Rec(<<"Drop", s, 0, "", 0>>)
    /\ UNCHANGED <<frames, aborted>>

\* mem::forget of an owning handle: the count it held is never given back
Forget(s) ==
    /\ On("Forget") /\ hnd[s].k \in {"Arc", "Off", "Uni", "Dyn"}
    /\ ~Locked(s)
    /\ blk' = [blk EXCEPT ![hnd[s].b].leaked = @ + 1]
    /\ hnd' = [hnd EXCEPT ![s] = NoH]
    /\ res' = [NoRes EXCEPT !.op = "Forget", !.s = s]
    /\ Rec(<<"Forget", s, 0, "", 0>>)
    /\ UNCHANGED <<frames, aborted>>

-----------------------------------------------------------------------------
(* Count-neutral conversions: consume the source (ManuallyDrop / forget),    *)
(* mint the destination on the same block.  No Rc step.                      *)

ConvTable == {
    <<"IntoRaw",      "Arc",    "Raw",    "AB">>,   \* Arc::into_raw
    <<"FromRaw",      "Raw",    "Arc",    "AB">>,   \* Arc::from_raw
    <<"IntoPtr",      "Arc",    "Raw",    "AB">>,   \* arc_swap::RefCnt::into_ptr
    <<"FromPtr",      "Raw",    "Arc",    "AB">>,   \* arc_swap::RefCnt::from_ptr
    <<"IntoOff",      "Arc",    "Off",    "AB">>,   \* Arc::into_raw_offset
    <<"FromOff",      "Off",    "Arc",    "AB">>,   \* Arc::from_raw_offset
    <<"FromFirst",    "Arc",    "Uni",    "A">>,    \* ArcUnion::from_first
    <<"FromSecond",   "Arc",    "Uni",    "B">>,    \* ArcUnion::from_second
    <<"Shareable",    "Unq",    "Arc",    "AB">>,   \* UniqueArc::shareable
    <<"Unsize",       "Arc",    "Dyn",    "AB">>,   \* unsize::CoerceUnsize
    <<"IntoRawDyn",   "Dyn",    "RawDyn", "AB">>,   \* Arc::<dyn _>::into_raw
    <<"FromRawDyn",   "RawDyn", "Dyn",    "AB">>,   \* Arc::<dyn _>::from_raw
    <<"CastDyn",      "Raw",    "RawDyn", "AB">>,   \* ptr as *const dyn _
    <<"UnsizeUnq",    "Unq",    "UnqDyn", "AB">>,   \* unsize::CoerceUnsize for UniqueArc
    <<"ShareableDyn", "UnqDyn", "Dyn",    "AB">>,   \* UniqueArc::<dyn _>::shareable
    <<"UnsizeBor",    "Bor",    "BorDyn", "AB">> }  \* unsize::CoerceUnsize for ArcBorrow

TyOK(b, tys) == tys = "AB" \/ blk[b].ty = tys

Conv(c, s) ==
    /\ On(c[1]) /\ hnd[s].k = c[2] /\ TyOK(hnd[s].b, c[4])
    /\ ~Locked(s)
    /\ hnd' = [hnd EXCEPT ![s].k = c[3]]
    /\ res' = [NoRes EXCEPT !.op = c[1], !.s = s]
    /\ Rec(<<c[1], s, 0, "", 0>>)
    /\ UNCHANGED <<blk, frames, aborted>>

-----------------------------------------------------------------------------
(* Borrows: no Rc step; the lender is pinned while the borrow exists *)

\* api: borrow_arc (Arc, OffsetArc, lent &Arc / &OffsetArc), borrow (ArcUnion),
\*      from_ptr (ArcBorrow::from_ptr on Arc::as_ptr or on a leaked raw pointer)
BorrowApis(k) == CASE k = "Arc"  -> {"borrow_arc", "from_ptr"}
                   [] k = "Off"  -> {"borrow_arc"}
                   [] k = "TArc" -> {"borrow_arc"}
                   [] k = "TOff" -> {"borrow_arc"}
                   [] k = "Uni"  -> {"borrow"}
                   [] k = "Raw"  -> {"from_ptr"}
                   [] OTHER      -> {}

Borrow(s, d, api) ==
    /\ On("Borrow") /\ api \in BorrowApis(hnd[s].k)
    /\ hnd' = MintLent(hnd, d, "Bor", hnd[s].b, s)
    /\ res' = [NoRes EXCEPT !.op = "Borrow", !.s = s]
    /\ Rec(<<"Borrow", s, d, api, 0>>)
    /\ UNCHANGED <<blk, frames, aborted>>

\* ArcBorrow is Copy
BorCopy(s, d) ==
    /\ On("BorCopy") /\ hnd[s].k = "Bor"
    /\ hnd' = MintLent(hnd, d, "Bor", hnd[s].b, hnd[s].ln)
    /\ res' = [NoRes EXCEPT !.op = "BorCopy", !.s = s]
    /\ Rec(<<"BorCopy", s, d, "", 0>>)
    /\ UNCHANGED <<blk, frames, aborted>>

-----------------------------------------------------------------------------
(* Callback frames: with_arc / with_raw_offset_arc.  The transient handle is a  *)
(* ManuallyDrop'd alias: it exists only inside the frame and owns nothing.     *)

TransKind(k) == CASE k \in {"Off", "Bor", "TOff"} -> "TArc"   \* with_arc
                  [] k \in {"Arc", "TArc"}        -> "TOff"   \* with_raw_offset_arc
                  [] OTHER                        -> "none"

Enter(s, d) ==
    /\ On("Enter") /\ TransKind(hnd[s].k) # "none"
    /\ Len(frames) < MaxFrames
    /\ frames' = Append(frames, [lender |-> s, trans |-> d])
    /\ hnd' = [hnd EXCEPT ![d] = [k |-> TransKind(hnd[s].k), b |-> hnd[s].b,
                                  ln |-> s, tf |-> Len(frames) + 1]]
    /\ res' = [NoRes EXCEPT !.op = "Enter", !.s = s]
    /\ Rec(<<"Enter", s, d, "", 0>>)
    /\ UNCHANGED <<blk, aborted>>

\* the callback returns (mode "ok") or unwinds (mode "panic"); borrows of the
\* transient cannot outlive the frame (lifetimes), everything else can
Exit(mode) ==
    /\ On("Exit") /\ frames # <<>>
    /\ LET top == frames[Len(frames)] IN
       /\ ~Locked(top.trans)
       /\ hnd' = [hnd EXCEPT ![top.trans] = NoH]
       /\ frames' = SubSeq(frames, 1, Len(frames) - 1)
       /\ res' = [NoRes EXCEPT !.op = "Exit", !.s = top.lender, !.panicked = (mode = "panic")]
    /\ Rec(<<"Exit", 0, 0, mode, 0>>)
    /\ UNCHANGED <<blk, aborted>>

-----------------------------------------------------------------------------
(* Uniqueness-gated operations.  The verdict is `count word = 1`.  *)

\* every gate below asks exactly this of the count word, whatever its magnitude (a gate that looks at part of the
\* word, e.g. its low 32 bits, opens for 2^32 + 1 owners: `tvh gates` presets such counts on the real crate)
GateOpen(rc) == rc = 1

Verdict(b) == IF GateOpen(blk[b].rc) THEN "yes" ELSE "no"

IsUnique(s) ==
    /\ On("IsUnique") /\ hnd[s].k \in {"Arc", "Dyn", "TArc"}
    /\ res' = [NoRes EXCEPT !.op = "IsUnique", !.s = s, !.verdict = Verdict(hnd[s].b)]
    /\ Rec(<<"IsUnique", s, 0, "", 0>>)
    /\ UNCHANGED <<blk, hnd, frames, aborted>>

\* Arc::ptr_eq / ArcBorrow::ptr_eq / ArcUnion::ptr_eq: two handles of one type name the same allocation
PtrEq(s, t) ==
    /\ On("PtrEq") /\ s # t
    /\ hnd[s].k = hnd[t].k /\ hnd[s].k \in {"Arc", "Uni", "Bor", "Dyn"}
    /\ hnd[s].k \in {"Arc", "Bor"} => blk[hnd[s].b].ty = blk[hnd[t].b].ty
    /\ res' = [NoRes EXCEPT !.op = "PtrEq", !.s = s, !.verdict = IF hnd[s].b = hnd[t].b THEN "yes" ELSE "no"]
    /\ Rec(<<"PtrEq", s, t, "", 0>>)
    /\ UNCHANGED <<blk, hnd, frames, aborted>>

\* Arc::try_unique / UniqueArc::try_from: Ok(UniqueArc) or Err(the same Arc)
TryUnique(s, api) ==
    /\ On("TryUnique") /\ hnd[s].k = "Arc" /\ ~Locked(s)
    /\ api \in {"try_unique", "try_from"}
    /\ hnd' = IF blk[hnd[s].b].rc = 1 THEN [hnd EXCEPT ![s].k = "Unq"] ELSE hnd
    /\ res' = [NoRes EXCEPT !.op = "TryUnique", !.s = s, !.verdict = Verdict(hnd[s].b)]
    /\ Rec(<<"TryUnique", s, 0, api, 0>>)
    /\ UNCHANGED <<blk, frames, aborted>>

\* Arc::get_mut / Arc::get_unique followed by a write through the granted reference
GetMut(s, api) ==
    /\ On("GetMut") /\ ~Locked(s)
    /\ \/ api = "get_mut"    /\ hnd[s].k \in {"Arc", "Dyn"}
       \/ api = "get_unique" /\ hnd[s].k = "Arc"
    /\ LET b == hnd[s].b IN
       /\ blk' = IF blk[b].rc = 1 THEN [blk EXCEPT ![b].val = FreshVal] ELSE blk
       /\ res' = [NoRes EXCEPT !.op = "GetMut", !.s = s, !.verdict = Verdict(b),
                               !.seen = IF blk[b].rc = 1 THEN blk[b].val ELSE 0]
    /\ Rec(<<"GetMut", s, 0, api, FreshVal>>)
    /\ UNCHANGED <<hnd, frames, aborted>>

\* DerefMut of a UniqueArc
UqWrite(s) ==
    /\ On("UqWrite") /\ hnd[s].k \in {"Unq", "UnqDyn"} /\ ~Locked(s)
    /\ blk' = [blk EXCEPT ![hnd[s].b].val = FreshVal]
    /\ res' = [NoRes EXCEPT !.op = "UqWrite", !.s = s, !.seen = blk[hnd[s].b].val]
    /\ Rec(<<"UqWrite", s, 0, "", FreshVal>>)
    /\ UNCHANGED <<hnd, frames, aborted>>

\* Arc::make_mut / Arc::make_unique / OffsetArc::make_mut, then a write.
\*   unique: same block, no clone.
\*   shared: T::clone (may panic: nothing has changed yet), Arc::new (block nb),
\*           `*this = ..` drops the old handle (Release) and retargets, then the write.
MakeMut(s, api, cp, nb) ==
    /\ On("MakeMut") /\ ~Locked(s)
    /\ \/ api = "make_mut"    /\ hnd[s].k \in {"Arc", "Off"}
       \/ api = "make_unique" /\ hnd[s].k = "Arc"
    /\ LET b == hnd[s].b IN
       IF blk[b].rc = 1
       THEN /\ cp = "ok"
            /\ blk' = [blk EXCEPT ![b].val = FreshVal]
            /\ hnd' = hnd
            /\ res' = [NoRes EXCEPT !.op = "MakeMut", !.s = s, !.verdict = "yes",
                                    !.seen = blk[b].val]
       ELSE IF cp = "panic"
       THEN /\ UNCHANGED <<blk, hnd>>
            /\ res' = [NoRes EXCEPT !.op = "MakeMut", !.s = s, !.verdict = "no",
                                    !.panicked = TRUE, !.ncl = 1]
       ELSE /\ nb \in FreeBlocks
            /\ blk' = Release([blk EXCEPT ![nb] = Fresh(blk[b].ty, FreshVal)], b)
            /\ hnd' = [hnd EXCEPT ![s].b = nb]
            /\ res' = [NoRes EXCEPT !.op = "MakeMut", !.s = s, !.verdict = "no",
                                    !.ncl = 1, !.seen = blk[b].val]
    /\ Rec(<<"MakeMut", s, 0, api \o "/" \o cp, FreshVal>>)
    /\ UNCHANGED <<frames, aborted>>

\* Arc::try_unwrap (= try_unique then into_inner) and UniqueArc::into_inner
TryUnwrap(s) ==
    /\ On("TryUnwrap") /\ hnd[s].k = "Arc" /\ ~Locked(s)
    /\ LET b == hnd[s].b IN
       IF blk[b].rc = 1
       THEN /\ blk' = MoveOut(blk, b)
            /\ hnd' = [hnd EXCEPT ![s] = NoH]
            /\ res' = [NoRes EXCEPT !.op = "TryUnwrap", !.s = s, !.verdict = "yes",
                                    !.seen = blk[b].val]
       ELSE /\ UNCHANGED <<blk, hnd>>
            /\ res' = [NoRes EXCEPT !.op = "TryUnwrap", !.s = s, !.verdict = "no"]
    /\ Rec(<<"TryUnwrap", s, 0, "", 0>>)
    /\ UNCHANGED <<frames, aborted>>

IntoInner(s) ==
    /\ On("IntoInner") /\ hnd[s].k = "Unq" /\ ~Locked(s)
    /\ blk' = MoveOut(blk, hnd[s].b)
    /\ hnd' = [hnd EXCEPT ![s] = NoH]
    /\ res' = [NoRes EXCEPT !.op = "IntoInner", !.s = s, !.verdict = "yes",
                            !.seen = blk[hnd[s].b].val]
    /\ Rec(<<"IntoInner", s, 0, "", 0>>)
    /\ UNCHANGED <<frames, aborted>>

\* Arc::unwrap_or_clone: sole owner -> the value itself; else T::clone (may panic)
\* and the handle is released either way
UnwrapOrClone(s, cp) ==
    /\ On("UnwrapOrClone") /\ hnd[s].k = "Arc" /\ ~Locked(s)
    /\ LET b == hnd[s].b IN
       IF blk[b].rc = 1
       THEN /\ cp = "ok"
            /\ blk' = MoveOut(blk, b)
            /\ res' = [NoRes EXCEPT !.op = "UnwrapOrClone", !.s = s, !.verdict = "yes",
                                    !.seen = blk[b].val]
       ELSE /\ blk' = Release(blk, b)
            /\ res' = [NoRes EXCEPT !.op = "UnwrapOrClone", !.s = s, !.verdict = "no",
                                    !.ncl = 1, !.panicked = (cp = "panic"),
                                    !.seen = IF cp = "ok" THEN blk[b].val ELSE 0]
    /\ hnd' = [hnd EXCEPT ![s] = NoH]
    /\ Rec(<<"UnwrapOrClone", s, 0, cp, 0>>)
    /\ UNCHANGED <<frames, aborted>>

-----------------------------------------------------------------------------
Init ==
    /\ blk = [b \in Blocks |-> NoB]
    /\ hnd = [s \in Slots |-> NoH]
    /\ frames = <<>>
    /\ res = NoRes
    /\ hist = <<>>
    /\ aborted = FALSE

\* exhaustive exploration: new handles take the lowest free slot, new blocks the
\* lowest free block (slot permutations are removed by the VIEW, see MC modules)
NextLowest ==
    \/ \E how \in Hows :
          FreeSlots # {} /\ FreeBlocks # {} /\ New(how, Lowest(FreeSlots), Lowest(FreeBlocks))
    \/ \E s \in Slots :
          \/ FreeSlots # {} /\ \/ Clone(s, Lowest(FreeSlots))
                               \/ CloneArc(s, Lowest(FreeSlots))
                               \/ \E api \in {"borrow_arc", "borrow", "from_ptr"} :
                                     Borrow(s, Lowest(FreeSlots), api)
                               \/ BorCopy(s, Lowest(FreeSlots))
                               \/ Enter(s, Lowest(FreeSlots))
          \/ Drop(s)
          \/ \E t \in Slots : CloneFrom(s, t)
          \/ Forget(s)
          \/ \E c \in ConvTable : Conv(c, s)
          \/ IsUnique(s)
          \/ \E t \in Slots : PtrEq(s, t)
          \/ \E api \in {"try_unique", "try_from"} : TryUnique(s, api)
          \/ \E api \in {"get_mut", "get_unique"} : GetMut(s, api)
          \/ UqWrite(s)
          \/ \E api \in {"make_mut", "make_unique"}, cp \in {"ok", "panic"} :
                MakeMut(s, api, cp, IF FreeBlocks = {} THEN 0 ELSE Lowest(FreeBlocks))
          \/ TryUnwrap(s)
          \/ IntoInner(s)
          \/ \E cp \in {"ok", "panic"} : UnwrapOrClone(s, cp)
    \/ \E mode \in {"ok", "panic"} : Exit(mode)

Spec == Init /\ [][NextLowest]_vars

-----------------------------------------------------------------------------
(* Invariants *)

TypeOK ==
    /\ \A b \in Blocks : /\ blk[b].st \in {"none", "live", "freed"}
                         /\ blk[b].rc \in 0..(Modulus - 1)
                         /\ blk[b].ty \in {"-", "A", "B"}
    /\ \A s \in Slots : /\ hnd[s].k \in Kinds \cup {"none"}
                        /\ hnd[s].k # "none" => hnd[s].b \in Blocks
                        /\ hnd[s].k = "none" => hnd[s] = NoH

\* C04: the count word equals the number of owning handles (plus forgotten ones)
CountAccurate ==
    ~aborted => \A b \in Blocks :
        blk[b].st = "live" => blk[b].rc = Owners(b) + blk[b].leaked

\* C01: a block is live exactly while somebody owns it
LiveIffOwned ==
    ~aborted => \A b \in Blocks :
        /\ blk[b].st = "live"  => Owners(b) + blk[b].leaked > 0
        /\ blk[b].st # "live" => Owners(b) = 0

\* C01: every handle of every kind (borrows and transients included) refers to a live block
NoDangling ==
    \A s \in Slots : hnd[s].k # "none" => blk[hnd[s].b].st = "live"

\* C01/C09: destroyed xor moved out, exactly once, and freed exactly once
DestroyedOnce ==
    \A b \in Blocks :
        /\ blk[b].st = "live"  => blk[b].drops = 0 /\ blk[b].frees = 0 /\ ~blk[b].out
        /\ blk[b].st = "freed" => /\ blk[b].frees = 1
                                  /\ blk[b].drops + (IF blk[b].out THEN 1 ELSE 0) = 1
        /\ blk[b].st = "none"  => blk[b] = NoB

\* C03: a UniqueArc is the only owner of its block
UniqueIsSole ==
    \A s \in Slots : hnd[s].k \in {"Unq", "UnqDyn"} => Owners(hnd[s].b) = 1 /\ blk[hnd[s].b].rc = 1

\* borrows point at their lender's block, transients belong to an open frame
LendersOK ==
    /\ \A s \in Slots : hnd[s].k \in LendKinds =>
          /\ hnd[s].ln \in Slots /\ hnd[hnd[s].ln].k # "none"
          /\ hnd[hnd[s].ln].b = hnd[s].b
    /\ \A s \in Slots : hnd[s].k \in {"TArc", "TOff"} <=> hnd[s].tf # 0
    /\ \A i \in 1..Len(frames) :
          /\ hnd[frames[i].trans].tf = i
          /\ hnd[frames[i].trans].ln = frames[i].lender
    /\ \A s \in Slots : hnd[s].tf # 0 => hnd[s].tf \in 1..Len(frames)

\* C12: an ArcUnion's variant is the block's payload type; both are stable
UnionTyped ==
    \A s \in Slots : hnd[s].k \in Kinds => blk[hnd[s].b].ty \in {"A", "B"}

\* C01: nothing is leaked: with no owner left every block ever allocated is freed
QuiescentClean ==
    (\A s \in Slots : ~Owns(s)) =>
        \A b \in Blocks : blk[b].st = "live" => blk[b].leaked > 0

\* C16: the count never wraps while the process runs, and the guard fires no later
\* than one clone after the limit
NoWrap ==
    /\ ~aborted => \A b \in Blocks :
          blk[b].st = "live" => Owners(b) + blk[b].leaked <= MaxRefcount + 1
    /\ aborted => \E b \in Blocks : blk[b].rc > MaxRefcount

Invariants ==
    /\ TypeOK /\ CountAccurate /\ LiveIffOwned /\ NoDangling /\ DestroyedOnce
    /\ UniqueIsSole /\ LendersOK /\ UnionTyped /\ QuiescentClean /\ NoWrap

-----------------------------------------------------------------------------
(* Action properties *)

UniqOps == {"IsUnique", "TryUnique", "GetMut", "MakeMut", "TryUnwrap", "UnwrapOrClone"}

\* C03: the verdict is "yes" exactly when the inspecting handle is the only owner
VerdictIffSoleOwner ==
    res'.op \in UniqOps =>
        (res'.verdict = "yes" <=> Owners(hnd[res'.s].b) + blk[hnd[res'.s].b].leaked = 1)

\* C03/C09: a declined request leaves everything as it was
DeclineKeepsHandle ==
    (res'.op \in {"TryUnique", "GetMut", "TryUnwrap"} /\ res'.verdict = "no") =>
        UNCHANGED <<blk, hnd>>

\* C04: only clone-style operations raise a count, only releases lower it, by one
CountSteps ==
    \A b \in Blocks : (blk[b].st = "live" /\ blk'[b].st = "live") =>
        \/ blk'[b].rc = blk[b].rc
        \/ blk'[b].rc = blk[b].rc + 1 /\ res'.op \in {"Clone", "CloneArc", "CloneFrom"}
        \/ blk'[b].rc + 1 = blk[b].rc
               /\ res'.op \in {"Drop", "MakeMut", "UnwrapOrClone", "CloneFrom"}

\* C08: no operation changes the value seen through a handle other than the one it acts on
CowIsolation ==
    \A t \in Slots :
        (hnd[t].k # "none" /\ hnd'[t] = hnd[t] /\ t # res'.s /\ blk'[hnd[t].b].st = "live")
            => blk'[hnd[t].b].val = blk[hnd[t].b].val

\* C08: make_mut clones exactly when shared, and then onto a fresh sole-owned block
CowClonesIffShared ==
    (res'.op = "MakeMut" /\ ~res'.panicked) =>
        /\ res'.ncl = (IF res'.verdict = "yes" THEN 0 ELSE 1)
        /\ res'.verdict = "yes" => hnd'[res'.s].b = hnd[res'.s].b
        /\ res'.verdict = "no" => /\ hnd'[res'.s].b # hnd[res'.s].b
                                  /\ blk'[hnd'[res'.s].b].rc = 1
                                  /\ blk'[hnd[res'.s].b].rc = blk[hnd[res'.s].b].rc - 1

\* C09: the value leaves only a sole owner, undestroyed, and its block is freed
MovesOutOnlyWhenSole ==
    \A b \in Blocks : (blk'[b].out /\ ~blk[b].out) =>
        /\ Owners(b) = 1 /\ blk[b].rc = 1 /\ blk'[b].drops = 0 /\ blk'[b].st = "freed"

\* C16: abort is terminal
AbortTerminal == aborted => UNCHANGED vars

ActionProps ==
    /\ VerdictIffSoleOwner /\ DeclineKeepsHandle /\ CountSteps /\ CowIsolation
    /\ CowClonesIffShared /\ MovesOutOnlyWhenSole /\ AbortTerminal

ActionsOK == [][ActionProps]_vars

-----------------------------------------------------------------------------
(* Projection shipped with every exported behaviour: what the implementation must show *)

ProjBlk(B)  == [b \in Blocks |->
                  <<B[b].st, B[b].ty, B[b].rc, B[b].val, B[b].drops, B[b].frees,
                    IF B[b].out THEN 1 ELSE 0>>]
ProjHnd(H)  == [s \in Slots |-> <<H[s].k, H[s].b>>]
ProjRes(r)  == <<r.op, r.s, r.verdict, IF r.panicked THEN 1 ELSE 0, r.ncl, r.seen>>
Proj(B, H, r, ab) == <<ProjBlk(B), ProjHnd(H), ProjRes(r), IF ab THEN 1 ELSE 0>>

=============================================================================
