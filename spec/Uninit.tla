------------------------------- MODULE Uninit -------------------------------
(***************************************************************************)
(* Handle-level specification of uninitialised construction:               *)
(*   UniqueArc::new_uninit / Arc::new_uninit            (shape "sized")     *)
(*   UniqueArc::new_uninit_slice / Arc::new_uninit_slice (shape "slice")    *)
(*   UniqueArc::from_header_and_uninit_slice             (shape "hdr")      *)
(* followed by writes, drops at any point, assume_init*, and the deprecated *)
(* Arc::write / as_mut_slice on possibly shared handles.                    *)
(*                                                                         *)
(* A block has `len` slots (1 for "sized"), a set `written` of slots that   *)
(* hold an object, and a header object iff its shape is "hdr".  A handle is *)
(* uninit-typed (payload type MaybeUninit<..>: its release never runs slot  *)
(* destructors) or init-typed (after assume_init: its release destroys      *)
(* every slot).                                                            *)
(***************************************************************************)
EXTENDS Naturals, Sequences, FiniteSets, TLC

CONSTANTS NSlots, NBlocks, MaxLen, Ops, KeepHist

VARIABLES blk, hnd, res, hist
vars == <<blk, hnd, res, hist>>

Slots  == 1..NSlots
Blocks == 1..NBlocks
\* UnqU / ArcU: UniqueArc / Arc over MaybeUninit;  UnqI / ArcI: after assume_init
Kinds == {"UnqU", "ArcU", "UnqI", "ArcI"}
Shapes == {"sized", "slice", "hdr"}

NoH == [k |-> "none", b |-> 0]
NoB == [st |-> "none", sh |-> "-", rc |-> 0, len |-> 0, written |-> {}, hdrops |-> 0,
        sdrops |-> [i \in 1..MaxLen |-> 0], frees |-> 0]
NoRes == [op |-> "-", s |-> 0, verdict |-> "-", panicked |-> FALSE]

Owners(b) == Cardinality({s \in Slots : hnd[s].k # "none" /\ hnd[s].b = b})
FreeSlots  == {d \in Slots : hnd[d].k = "none"}
FreeBlocks == {b \in Blocks : blk[b].st = "none"}
Lowest(S)  == CHOOSE x \in S : \A y \in S : x <= y
Rec(e) == hist' = IF KeepHist THEN Append(hist, e) ELSE hist
On(op) == op \in Ops

\* release through a handle of kind k: the destructor that runs is the one of the handle's type
Release(B, b, k) ==
    IF B[b].rc > 1 THEN [B EXCEPT ![b].rc = @ - 1]
    ELSE [B EXCEPT ![b].rc = 0, ![b].st = "freed", ![b].frees = @ + 1,
                   ![b].hdrops = @ + (IF B[b].sh = "hdr" THEN 1 ELSE 0),
                   ![b].sdrops = [i \in 1..MaxLen |->
                                    @[i] + (IF k \in {"UnqI", "ArcI"} /\ i \in B[b].written THEN 1 ELSE 0)]]

-----------------------------------------------------------------------------
CtorKind(c)  == IF c \in {"arc_sized", "arc_slice"} THEN "ArcU" ELSE "UnqU"
CtorShape(c) == CASE c \in {"unq_sized", "arc_sized"} -> "sized"
                  [] c \in {"unq_slice", "arc_slice"} -> "slice"
                  [] OTHER -> "hdr"

NewUninit(c, d, b, len) ==
    /\ On("NewUninit")
    /\ c \in {"unq_sized", "arc_sized", "unq_slice", "arc_slice", "unq_hdr", "unq_hdrz"}   \* hdrz: zero-sized header
    /\ CtorShape(c) = "sized" => len = 1
    /\ blk' = [blk EXCEPT ![b] = [NoB EXCEPT !.st = "live", !.sh = CtorShape(c), !.rc = 1, !.len = len]]
    /\ hnd' = [hnd EXCEPT ![d] = [k |-> CtorKind(c), b |-> b]]
    /\ res' = [NoRes EXCEPT !.op = "NewUninit", !.s = d]
    /\ Rec(<<"NewUninit", len, d, c, 0>>)

\* UniqueArc::write / DerefMut + MaybeUninit::write on an unwritten slot
Write(s, i) ==
    /\ On("Write") /\ hnd[s].k = "UnqU"
    /\ i \in 1..blk[hnd[s].b].len /\ i \notin blk[hnd[s].b].written
    /\ blk' = [blk EXCEPT ![hnd[s].b].written = @ \cup {i}]
    /\ res' = [NoRes EXCEPT !.op = "Write", !.s = s]
    /\ Rec(<<"Write", s, i, "", 0>>)
    /\ UNCHANGED hnd

\* deprecated Arc::write (sized) / Arc::as_mut_slice (slice); get_mut for the header shape:
\* mutates iff the handle is the only owner, otherwise panics (get_mut: declines) and changes nothing
ArcWrite(s, i) ==
    /\ On("ArcWrite") /\ hnd[s].k = "ArcU"
    /\ i \in 1..blk[hnd[s].b].len /\ i \notin blk[hnd[s].b].written
    /\ LET b == hnd[s].b IN
       /\ blk' = IF blk[b].rc = 1 THEN [blk EXCEPT ![b].written = @ \cup {i}] ELSE blk
       /\ res' = [NoRes EXCEPT !.op = "ArcWrite", !.s = s,
                               !.verdict = IF blk[b].rc = 1 THEN "yes" ELSE "no",
                               !.panicked = (blk[b].rc # 1 /\ blk[b].sh # "hdr")]
    /\ Rec(<<"ArcWrite", s, i, "", 0>>)
    /\ UNCHANGED hnd

\* deprecated Arc::as_mut_slice on its own: hands out &mut [MaybeUninit<T>] iff sole owner, else panics
\* (for every length, zero included)
AsMutSlice(s) ==
    /\ On("AsMutSlice") /\ hnd[s].k = "ArcU" /\ blk[hnd[s].b].sh = "slice"
    /\ res' = [NoRes EXCEPT !.op = "AsMutSlice", !.s = s,
                            !.verdict = IF blk[hnd[s].b].rc = 1 THEN "yes" ELSE "no",
                            !.panicked = (blk[hnd[s].b].rc # 1)]
    /\ Rec(<<"AsMutSlice", s, 0, "", 0>>)
    /\ UNCHANGED <<blk, hnd>>

Clone(s, d) ==
    /\ On("Clone") /\ hnd[s].k \in {"ArcU", "ArcI"}
    /\ blk' = [blk EXCEPT ![hnd[s].b].rc = @ + 1]
    /\ hnd' = [hnd EXCEPT ![d] = hnd[s]]
    /\ res' = [NoRes EXCEPT !.op = "Clone", !.s = s]
    /\ Rec(<<"Clone", s, d, "", 0>>)

Drop(s) ==
    /\ On("Drop") /\ hnd[s].k \in Kinds
    /\ blk' = Release(blk, hnd[s].b, hnd[s].k)
    /\ hnd' = [hnd EXCEPT ![s] = NoH]
    /\ res' = [NoRes EXCEPT !.op = "Drop", !.s = s]
    /\ Rec(<<"Drop", s, 0, "", 0>>)

Shareable(s) ==
    /\ On("Shareable") /\ hnd[s].k \in {"UnqU", "UnqI"}
    /\ hnd' = [hnd EXCEPT ![s].k = IF hnd[s].k = "UnqU" THEN "ArcU" ELSE "ArcI"]
    /\ res' = [NoRes EXCEPT !.op = "Shareable", !.s = s]
    /\ Rec(<<"Shareable", s, 0, "", 0>>)
    /\ UNCHANGED blk

TryUnique(s) ==
    /\ On("TryUnique") /\ hnd[s].k \in {"ArcU", "ArcI"}
    /\ hnd' = IF blk[hnd[s].b].rc = 1
              THEN [hnd EXCEPT ![s].k = IF hnd[s].k = "ArcU" THEN "UnqU" ELSE "UnqI"] ELSE hnd
    /\ res' = [NoRes EXCEPT !.op = "TryUnique", !.s = s,
                            !.verdict = IF blk[hnd[s].b].rc = 1 THEN "yes" ELSE "no"]
    /\ Rec(<<"TryUnique", s, 0, "", 0>>)
    /\ UNCHANGED blk

\* assume_init / assume_init_slice / assume_init_slice_with_header: the caller's obligation is that
\* every slot is written (and, for a shared Arc, that no uninit-typed handle remains: sole owner)
AssumeInit(s) ==
    /\ On("AssumeInit") /\ hnd[s].k \in {"UnqU", "ArcU"}
    /\ LET b == hnd[s].b IN
       /\ blk[b].written = 1..blk[b].len
       \* (a shared Arc<MaybeUninit<T>> may be cast too: each copy is cast, or released as it is, on its own)
       /\ blk[b].sh = "hdr" => hnd[s].k = "UnqU"
    /\ hnd' = [hnd EXCEPT ![s].k = IF hnd[s].k = "UnqU" THEN "UnqI" ELSE "ArcI"]
    /\ res' = [NoRes EXCEPT !.op = "AssumeInit", !.s = s]
    /\ Rec(<<"AssumeInit", s, 0, "", 0>>)
    /\ UNCHANGED blk

-----------------------------------------------------------------------------
Init ==
    /\ blk = [b \in Blocks |-> NoB] /\ hnd = [s \in Slots |-> NoH]
    /\ res = NoRes /\ hist = <<>>

NextLowest ==
    \/ /\ FreeSlots # {} /\ FreeBlocks # {}
       /\ \E c \in {"unq_sized", "arc_sized", "unq_slice", "arc_slice", "unq_hdr", "unq_hdrz"}, len \in 0..MaxLen :
             NewUninit(c, Lowest(FreeSlots), Lowest(FreeBlocks), len)
    \/ \E s \in Slots :
          \/ \E i \in 1..MaxLen : Write(s, i) \/ ArcWrite(s, i)
          \/ FreeSlots # {} /\ Clone(s, Lowest(FreeSlots))
          \/ Drop(s) \/ Shareable(s) \/ TryUnique(s) \/ AssumeInit(s) \/ AsMutSlice(s)

Spec == Init /\ [][NextLowest]_vars

-----------------------------------------------------------------------------
CountAccurate == \A b \in Blocks : blk[b].st = "live" => blk[b].rc = Owners(b)
LiveIffOwned  == \A b \in Blocks : (blk[b].st = "live") <=> (Owners(b) > 0)
\* C15: nothing that was not written is ever destroyed; nothing is destroyed twice; nothing at all is
\* destroyed while the block is live; the header goes exactly once with the block
NeverDestroyUnwritten ==
    \A b \in Blocks : \A i \in 1..MaxLen :
        /\ blk[b].sdrops[i] <= 1
        /\ blk[b].sdrops[i] = 1 => (i \in blk[b].written /\ blk[b].st = "freed")
HeaderOnce ==
    \A b \in Blocks :
        /\ blk[b].st = "live"  => blk[b].hdrops = 0 /\ blk[b].frees = 0
        /\ blk[b].st = "freed" => blk[b].frees = 1 /\ blk[b].hdrops = (IF blk[b].sh = "hdr" THEN 1 ELSE 0)
\* C15: a unique handle is the sole owner; init-typed handles only on fully written blocks
UniqueIsSole == \A s \in Slots : hnd[s].k \in {"UnqU", "UnqI"} => blk[hnd[s].b].rc = 1
InitTypedIsWritten ==
    \A s \in Slots : hnd[s].k \in {"UnqI", "ArcI"} => blk[hnd[s].b].written = 1..blk[hnd[s].b].len
Invariants == CountAccurate /\ LiveIffOwned /\ NeverDestroyUnwritten /\ HeaderOnce /\ UniqueIsSole /\ InitTypedIsWritten

\* C15: assume_init changes the type and nothing else; a refused deprecated write changes nothing
AssumeInitNeutral == res'.op = "AssumeInit" => blk' = blk /\ hnd'[res'.s].b = hnd[res'.s].b
RefusedWriteNeutral == (res'.op = "ArcWrite" /\ res'.verdict = "no") => UNCHANGED <<blk, hnd>>
\* C15: after assume_init the release destroys every slot exactly once
InitReleaseDestroysAll ==
    \A b \in Blocks : (blk[b].st = "live" /\ blk'[b].st = "freed" /\ res'.op = "Drop"
                       /\ hnd[res'.s].k \in {"UnqI", "ArcI"}) =>
        \A i \in 1..blk[b].len : blk'[b].sdrops[i] = 1
UninitReleaseDestroysNone ==
    \A b \in Blocks : (blk[b].st = "live" /\ blk'[b].st = "freed" /\ res'.op = "Drop"
                       /\ hnd[res'.s].k \in {"UnqU", "ArcU"}) =>
        \A i \in 1..MaxLen : blk'[b].sdrops[i] = 0
ActionsOK == [][AssumeInitNeutral /\ RefusedWriteNeutral /\ InitReleaseDestroysAll /\ UninitReleaseDestroysNone]_vars

ProjBlk(B) == [b \in Blocks |-> <<B[b].st, B[b].sh, B[b].rc, B[b].len,
                                  [i \in 1..MaxLen |-> IF i \in B[b].written THEN 1 ELSE 0],
                                  B[b].hdrops, B[b].sdrops, B[b].frees>>]
ProjHnd(H) == [s \in Slots |-> <<H[s].k, H[s].b>>]
ProjRes(r) == <<r.op, r.s, r.verdict, IF r.panicked THEN 1 ELSE 0>>
Proj(B, H, r) == <<ProjBlk(B), ProjHnd(H), ProjRes(r), 0>>

=============================================================================
