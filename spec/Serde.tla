-------------------------------- MODULE Serde --------------------------------
(***************************************************************************)
(* serde glue of Arc<T> / UniqueArc<T> (C17), as a trace specification.     *)
(*                                                                         *)
(* State: the handle under test (its count) and the number of live blocks   *)
(* of the scenario.  Actions:                                              *)
(*   Serialize   an observer: nothing changes, and the serializer sees       *)
(*               exactly the calls SerCalls(value, k) that serialising the   *)
(*               value itself produces when the k-th call fails.  SerCalls   *)
(*               is uninterpreted here: the trace supplies both call logs    *)
(*               and the action requires them (and both results) equal.      *)
(*   DeserializeOk   a fresh block appears with one owner holding a value    *)
(*               equal to what T's own deserialiser yields from the input.   *)
(*   DeserializeErr  T's error comes out unchanged; no block is left behind. *)
(* Every event is a separate scenario recorded from the real crate with a   *)
(* recording serializer / token deserializer and fault injection at each    *)
(* k-th callback and each truncation of the input.                          *)
(***************************************************************************)
EXTENDS Naturals, Sequences, TLC, Json, IOUtils

Rec == ndJsonDeserialize(IOEnv.TRACE)

VARIABLES l, owners, blocks
vars == <<l, owners, blocks>>
Ev == Rec[l]

Init == l = 2 /\ owners = 0 /\ blocks = 0

\* the scenario's starting point (one handle, or two for "arc_shared"), then the observer
SerializeAct ==
    /\ Ev.op = "ser"
    /\ owners' = Ev.count_before /\ blocks' = 1
    \* observer: count untouched, no allocation made or left, nothing leaked afterwards
    /\ Ev.count_after = Ev.count_before
    /\ Ev.live_delta = 0 /\ Ev.leaked = 0
    \* transparency: same calls in the same order with the same arguments, same result (errors included)
    /\ Ev.same_calls = 1 /\ Ev.same_result = 1

DeserializeOkAct ==
    /\ Ev.op = "de" /\ Ev.ok = 1
    /\ Ev.agree = 1                      \* T's deserialiser succeeds on this input too
    /\ owners' = 1 /\ blocks' = 1        \* a fresh block with a sole owner ...
    /\ Ev.count = owners' /\ Ev.fresh = 1
    /\ Ev.value_equal = 1                \* ... of the value T's deserialiser yields
    /\ Ev.same_calls = 1                 \* driving the deserializer exactly as T does
    /\ Ev.live_after = 0                 \* and it is released with its handle

DeserializeErrAct ==
    /\ Ev.op = "de" /\ Ev.ok = 0
    /\ Ev.agree = 1                      \* the very error T's deserialiser reports
    /\ owners' = 0 /\ blocks' = 0
    /\ Ev.live_after = blocks'           \* no allocation left behind
    /\ Ev.same_calls = 1

Next == l <= Len(Rec) /\ l' = l + 1 /\ (SerializeAct \/ DeserializeOkAct \/ DeserializeErrAct)
Spec == Init /\ [][Next]_vars

TypeOK == owners \in 0..2 /\ blocks \in 0..1

Accepted ==
    LET d == TLCGet("stats").diameter IN
    IF d = Len(Rec) THEN TRUE
    ELSE Print(<<"TRACE-REJECTED at event", d + 1, Rec[d + 1]>>, FALSE)
=============================================================================
