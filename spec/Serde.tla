-------------------------------- MODULE Serde --------------------------------
(***************************************************************************)
(* serde glue of Arc<T> / UniqueArc<T> (C17), as a trace specification.     *)
(*                                                                         *)
(* State: the handle under test (its count) and the number of live blocks   *)
(* of the scenario.  Actions:                                              *)
(*   Serialize   an observer: nothing changes, and the serializer sees       *)
(*               exactly the calls SerCalls(value, k) that serialising the   *)
(*               value itself produces when the k-th call fails.  SerCalls   *)
(*               is uninterpreted here: the trace supplies both call logs    *)
(*               and the action requires them (and both results) equal.      *)
(*   DeserializeOk   a fresh block appears with one owner holding a value    *)
(*               equal to what T's own deserialiser yields from the input.   *)
(*   DeserializeErr  T's error comes out unchanged; no block is left behind. *)
(*   InPlaceOk / InPlaceErr  deserialize_in_place into a (possibly shared)   *)
(*               handle: a fresh sole owner, or nothing changed at all.      *)
(* Serializer and deserializer answer is_human_readable() both ways.        *)
(* Every event is a separate scenario recorded from the real crate with a   *)
(* recording serializer / token deserializer and fault injection at each    *)
(* k-th callback and each truncation of the input.                          *)
(***************************************************************************)
EXTENDS Naturals, Sequences, TLC, Json, IOUtils

Rec == ndJsonDeserialize(IOEnv.TRACE)

VARIABLES l, owners, blocks
vars == <<l, owners, blocks>>
Ev == Rec[l]

Init == l = 2 /\ owners = 0 /\ blocks = 0

\* the scenario's starting point (one handle, or two for "arc_shared"), then the observer
\* (the serializer may also panic at its k-th call: "same result" then means the unwind leaves at the same call as
\*  for the value; count and allocations are judged as for an error)
SerializeAct ==
    /\ Ev.op = "ser"
    /\ owners' = Ev.count_before /\ blocks' = 1
    \* observer: count untouched, no allocation made or left, nothing leaked afterwards
    /\ Ev.count_after = Ev.count_before
    /\ Ev.live_delta = 0 /\ Ev.leaked = 0
    \* transparency: same calls in the same order with the same arguments, same result (errors included)
    /\ Ev.same_calls = 1 /\ Ev.same_result = 1

DeserializeOkAct ==
    /\ Ev.op = "de" /\ Ev.ok = 1
    /\ Ev.agree = 1                      \* T's deserialiser succeeds on this input too
    /\ owners' = 1 /\ blocks' = 1        \* a fresh block with a sole owner ...
    /\ Ev.count = owners' /\ Ev.fresh = 1
    /\ Ev.value_equal = 1                \* ... of the value T's deserialiser yields
    /\ Ev.same_calls = 1                 \* driving the deserializer exactly as T does
    /\ Ev.live_after = 0                 \* and it is released with its handle

\* (a failure is an error value or an unwind out of the deserializer / the payload's impl: the harness records a
\*  panic at the k-th call as a failure whose "error" is the panic's payload)
DeserializeErrAct ==
    /\ Ev.op = "de" /\ Ev.ok = 0
    /\ Ev.agree = 1                      \* the very error T's deserialiser reports
    /\ owners' = 0 /\ blocks' = 0
    /\ Ev.live_after = blocks'           \* no allocation left behind
    /\ Ev.same_calls = 1

\* Deserialize::deserialize_in_place(d, &mut handle) with `others` further owners of the old value:
\* success leaves the handle a fresh sole owner of the new value (the old block loses one owner, or goes away
\* with its last one); failure leaves everything as it was.  Either way the other owners see nothing change.
InPlaceOkAct ==
    /\ Ev.op = "de_in_place" /\ Ev.ok = 1
    /\ Ev.agree = 1
    /\ owners' = 1 /\ blocks' = (IF Ev.others > 0 THEN 2 ELSE 1)
    /\ Ev.count = owners' /\ (Ev.kind = "arc" => Ev.moved = 1)   \* (a UniqueArc may reuse its allocation)
    /\ Ev.others_count = Ev.others          \* the old value keeps exactly its other owners
    /\ Ev.value_ok = 1 /\ Ev.others_intact = 1
    /\ Ev.left = 0                        \* nothing is left once every handle is gone

InPlaceErrAct ==
    /\ Ev.op = "de_in_place" /\ Ev.ok = 0
    /\ Ev.agree = 1
    /\ owners' = Ev.others + 1 /\ blocks' = 1
    /\ Ev.count = owners' /\ Ev.moved = 0
    /\ (Ev.others > 0 => Ev.others_count = owners')
    /\ Ev.value_ok = 1 /\ Ev.others_intact = 1
    /\ Ev.left = 0

\* a handle is deserialisable for exactly the lifetimes its payload is
BoundAct ==
    /\ Ev.op = "bound"
    /\ Ev.handle_is = Ev.payload_is
    /\ UNCHANGED <<owners, blocks>>

Next == l <= Len(Rec) /\ l' = l + 1 /\ (BoundAct \/ SerializeAct \/ DeserializeOkAct \/ DeserializeErrAct \/ InPlaceOkAct \/ InPlaceErrAct)
Spec == Init /\ [][Next]_vars

TypeOK == owners \in 0..3 /\ blocks \in 0..2

Accepted ==
    LET d == TLCGet("stats").diameter IN
    IF d = Len(Rec) THEN TRUE
    ELSE Print(<<"TRACE-REJECTED at event", d + 1, Rec[d + 1]>>, FALSE)
=============================================================================
