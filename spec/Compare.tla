------------------------------ MODULE Compare ------------------------------
(***************************************************************************)
(* Comparison, ordering and hashing of handles (C14).                      *)
(*                                                                         *)
(* Values: a header letter, a slice of letters of length <= MaxLen, and    *)
(* (for HeaderWithLength) a recorded length that the public constructors   *)
(* let differ from the slice length.  Letters come from one of three       *)
(* carriers: "total" (1 < 2 < 3), "partial" (1 < 2 and the element 9,       *)
(* which is incomparable with everything and not equal to itself: NaN),    *)
(* "refl" (equality only, no order).                                       *)
(*                                                                         *)
(* Two layers:                                                             *)
(*   Val*   what comparing the VALUES gives (the reference the property    *)
(*          names: header, then slice, lexicographically)                  *)
(*   Impl*  the operators as the crate's impls are WRITTEN (derived        *)
(*          equality includes the recorded length, the hand-written         *)
(*          ordering of HeaderSlice<HeaderWithLength<H>,T> skips it;         *)
(*          Arc::eq short-cuts on pointer equality; ...)                    *)
(* The laws are stated once and checked for both layers.                   *)
(***************************************************************************)
EXTENDS Naturals, Sequences, FiniteSets, TLC

CONSTANTS Carrier, MaxLen, RecDelta   \* RecDelta: recorded length = slice length + d, d in RecDelta

Letters == IF Carrier = "partial" THEN {1, 2, 9} ELSE {1, 2, 3}
NaN == 9

\* ---- letters -------------------------------------------------------------
LEq(x, y) == IF Carrier = "partial" /\ (x = NaN \/ y = NaN) THEN FALSE ELSE x = y
\* "lt" | "eq" | "gt" | "none"
LCmp(x, y) ==
    IF Carrier = "refl" THEN "none"
    ELSE IF Carrier = "partial" /\ (x = NaN \/ y = NaN) THEN "none"
    ELSE IF x < y THEN "lt" ELSE IF x > y THEN "gt" ELSE "eq"

\* ---- slices: core's lexicographic comparison ------------------------------
Min(a, b) == IF a <= b THEN a ELSE b
SEq(xs, ys) == Len(xs) = Len(ys) /\ \A i \in 1..Len(xs) : LEq(xs[i], ys[i])
RECURSIVE SCmpFrom(_, _, _)
SCmpFrom(xs, ys, i) ==
    IF i > Min(Len(xs), Len(ys))
    THEN (IF Len(xs) < Len(ys) THEN "lt" ELSE IF Len(xs) > Len(ys) THEN "gt" ELSE "eq")
    ELSE LET r == LCmp(xs[i], ys[i]) IN IF r = "eq" THEN SCmpFrom(xs, ys, i + 1) ELSE r
SCmp(xs, ys) == IF Carrier = "refl" THEN "none" ELSE SCmpFrom(xs, ys, 1)
Then(r1, r2) == IF r1 = "eq" THEN r2 ELSE r1

\* ---- values ---------------------------------------------------------------
\* v = [h, s, rec]: header letter, slice, recorded length
Slices == UNION {[1..n -> Letters] : n \in 0..MaxLen}
Values == {[h |-> h, s |-> s, rec |-> Len(s) + d] : h \in Letters, s \in Slices, d \in RecDelta}

\* what the VALUES answer: header followed by slice; the recorded length is part of the value's
\* identity (it is a public field), ordered last
ValEq(x, y)  == LEq(x.h, y.h) /\ SEq(x.s, y.s) /\ x.rec = y.rec
ValCmp(x, y) == LET r == Then(LCmp(x.h, y.h), SCmp(x.s, y.s)) IN
                IF r = "eq" THEN (IF x.rec < y.rec THEN "lt" ELSE IF x.rec > y.rec THEN "gt" ELSE "eq") ELSE r

\* ---- the impls as written --------------------------------------------------
\* #[derive(PartialEq)] on HeaderSlice and HeaderWithLength: header.header, header.length, slice
ImplValEq(x, y)  == LEq(x.h, y.h) /\ x.rec = y.rec /\ SEq(x.s, y.s)
\* header.rs: impl PartialOrd/Ord for HeaderSlice<HeaderWithLength<H>, T>: (&header.header, &slice)
ImplValCmpAsWritten(x, y) == Then(LCmp(x.h, y.h), SCmp(x.s, y.s))
\* after the repair: the recorded length is the final tie-breaker
ImplValCmpRepaired(x, y)  == ValCmp(x, y)

\* handle kinds.  same = the two handles refer to the same allocation
\* Arc / ThinArc: eq = ptr_eq \/ value eq;  ne = ~ptr_eq /\ value ne
ArcEq(same, x, y, veq(_, _)) == same \/ veq(x, y)
ArcNe(same, x, y, veq(_, _)) == ~same /\ ~veq(x, y)
\* OffsetArc: values only
OffEq(same, x, y, veq(_, _)) == veq(x, y)
\* ArcBorrow / ArcUnion as written: #[derive(PartialEq)] over the pointer
BorEqAsWritten(same, x, y) == same

-----------------------------------------------------------------------------
VARIABLE p      \* the pair under examination: [x, y, same]
Init == p \in {[x |-> x, y |-> y, same |-> sm] : x \in Values, y \in Values, sm \in BOOLEAN} /\ (p.same => p.x = p.y)
Next == UNCHANGED p
Spec == Init /\ [][Next]_p

SelfEq(v) == ValEq(v, v)     \* false only for values containing NaN

\* ---- the laws, parametric in (eq, cmp) -----------------------------------
Coherent(eq(_, _), cmp(_, _), x, y) ==
    \* eq <=> partial_cmp = Equal
    /\ (eq(x, y) <=> cmp(x, y) = "eq")
    \* antisymmetry / duality
    /\ (cmp(x, y) = "lt" <=> cmp(y, x) = "gt")
    /\ (cmp(x, y) = "none" <=> cmp(y, x) = "none")
    /\ (eq(x, y) <=> eq(y, x))

\* the reference layer is coherent on every pair, all carriers
ValuesCoherent == Carrier # "refl" => Coherent(ValEq, ValCmp, p.x, p.y)
\* header then slice: the header decides unless equal
HeaderFirst == (Carrier # "refl" /\ LCmp(p.x.h, p.y.h) \in {"lt", "gt"}) => ValCmp(p.x, p.y) = LCmp(p.x.h, p.y.h)

\* the impls as written: coherent?  (TLC refutes this when RecDelta offers two recorded lengths)
ImplCoherentAsWritten == Carrier # "refl" => Coherent(ImplValEq, ImplValCmpAsWritten, p.x, p.y)
ImplCoherentRepaired  == Carrier # "refl" => Coherent(ImplValEq, ImplValCmpRepaired, p.x, p.y)

\* see-through: an Arc answers what the values answer, except for the same-allocation licence
ArcSeesThrough ==
    /\ (~p.same => ArcEq(p.same, p.x, p.y, ImplValEq) = ValEq(p.x, p.y))
    /\ (p.same /\ SelfEq(p.x) => ArcEq(p.same, p.x, p.y, ImplValEq) = ValEq(p.x, p.y))
    /\ (ArcEq(p.same, p.x, p.y, ImplValEq) <=> ~ArcNe(p.same, p.x, p.y, ImplValEq))
OffsetSeesThrough == OffEq(p.same, p.x, p.y, ImplValEq) = ValEq(p.x, p.y)
\* ArcBorrow / ArcUnion as written do NOT see through (pointer comparison): refuted by TLC
BorrowSeesThroughAsWritten == BorEqAsWritten(p.same, p.x, p.y) = ValEq(p.x, p.y) \/ (p.same /\ ~SelfEq(p.x))

\* equal handles hash equally: derived Hash feeds header, recorded length, slice length, elements
HashKey(v) == <<v.h, v.rec, Len(v.s), v.s>>
EqImpliesHashEq == ImplValEq(p.x, p.y) => HashKey(p.x) = HashKey(p.y)

Laws == ValuesCoherent /\ HeaderFirst /\ ImplCoherentRepaired /\ ArcSeesThrough /\ OffsetSeesThrough /\ EqImpliesHashEq

=============================================================================
