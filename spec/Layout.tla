------------------------------- MODULE Layout -------------------------------
(***************************************************************************)
(* Block layout arithmetic of triomphe.                                    *)
(*                                                                         *)
(* Allocation side: the layouts the crate computes by hand before calling  *)
(* the allocator (allocate_for_layout, allocate_for_header_and_slice,      *)
(* UniqueArc::new_uninit, From<Box<T>>), written the way the source writes *)
(* them with core::alloc::Layout's extend / pad_to_align / array.          *)
(*                                                                         *)
(* Release side: the layout rustc derives from the (possibly fat) pointer  *)
(* when the block is turned back into a Box (Layout::for_value of the      *)
(* repr(C) struct ArcInner<..>), written as the repr(C) layout algorithm.  *)
(*                                                                         *)
(* The invariants say the two agree for every shape, the block fits its    *)
(* contents, the payload is aligned, the data offset used by from_raw is   *)
(* the field offset, the length word of a thin block sits at a length-      *)
(* independent offset, and the low bit of a payload address is free.       *)
(***************************************************************************)
EXTENDS Naturals, Sequences, FiniteSets, TLC

CONSTANTS
    Aligns,      \* alignments of the matrix
    MaxSize,     \* sizes 0..MaxSize (multiples of the alignment)
    MaxLen,      \* slice lengths 0..MaxLen
    MaxIsize     \* scale model of isize::MAX (overflow checks)

L(s, a) == [size |-> s, align |-> a]
Max(a, b) == IF a >= b THEN a ELSE b
RoundUp(n, a) == ((n + a - 1) \div a) * a

Overflow == [size |-> 0, align |-> 0]          \* the "Err(LayoutError)" token
IsErr(l) == l.align = 0
\* Layout::from_size_align: the size rounded up to the alignment must not exceed isize::MAX
Valid(l) == RoundUp(l.size, l.align) <= MaxIsize
Checked(l) == IF Valid(l) THEN l ELSE Overflow

\* Layout::extend: (layout, offset of `next`); no trailing padding
Extend(l1, l2) ==
    IF IsErr(l1) \/ IsErr(l2) THEN <<Overflow, 0>>
    ELSE LET off == RoundUp(l1.size, l2.align)
         IN  <<Checked(L(off + l2.size, Max(l1.align, l2.align))), off>>
PadToAlign(l) == IF IsErr(l) THEN l ELSE L(RoundUp(l.size, l.align), l.align)
\* Layout::array::<T>(n)
Array(e, n) == Checked(L(e.size * n, e.align))

Word == L(8, 8)                      \* AtomicUsize / usize on the 64-bit target
Unit == L(0, 1)                      \* ()

-----------------------------------------------------------------------------
(* rustc: layout of a repr(C) struct with the given field layouts *)

RECURSIVE ReprCFold(_, _, _)
ReprCFold(fields, i, acc) ==      \* acc = <<size so far, align so far>>
    IF i > Len(fields) THEN L(RoundUp(acc[1], acc[2]), acc[2])
    ELSE LET f == fields[i]
             off == RoundUp(acc[1], f.align)
         IN  ReprCFold(fields, i + 1, <<off + f.size, Max(acc[2], f.align)>>)
ReprC(fields) == ReprCFold(fields, 1, <<0, 1>>)

\* offset of field i (1-based) in a repr(C) struct
RECURSIVE OffsetFold(_, _, _, _)
OffsetFold(fields, i, k, sz) ==
    LET off == RoundUp(sz, fields[k].align) IN
    IF k = i THEN off ELSE OffsetFold(fields, i, k + 1, off + fields[k].size)
FieldOffset(fields, i) == OffsetFold(fields, i, 1, 0)

-----------------------------------------------------------------------------
(* Allocation side, as the source computes it *)

\* arc.rs allocate_for_layout / try_allocate_for_layout
AllocForLayout(v) == PadToAlign(Extend(Word, v)[1])
\* arc.rs allocate_for_header_and_slice::<H, T>(len)
AllocHeaderSlice(h, t, n) == AllocForLayout(PadToAlign(Extend(h, Array(t, n))[1]))
\* Arc::new / UniqueArc::new: Box::new(ArcInner { count, data })
AllocNew(t) == ReprC(<<Word, t>>)
\* UniqueArc::new_uninit: Layout::new::<ArcInner<MaybeUninit<T>>>()
AllocUninit(t) == ReprC(<<Word, t>>)
\* header.rs From<Box<T>>: allocate_for_layout(Layout::for_value(&*b))
AllocFromBox(t) == AllocForLayout(t)

\* HeaderWithLength<H> is repr(C) { header: H, length: usize }
WithLength(h) == ReprC(<<h, Word>>)

-----------------------------------------------------------------------------
(* Release side: Layout::for_value(&*ptr) of ArcInner<X>, as rustc lays repr(C) out *)

\* X = T (sized), also dyn Trait over T, MaybeUninit<T>
ReleaseSized(t) == ReprC(<<Word, t>>)
\* X = HeaderSlice<H, [T]> with n elements (the tail's size is n * size_of T)
HeaderSliceLayout(h, t, n) == ReprC(<<h, L(t.size * n, t.align)>>)
ReleaseHeaderSlice(h, t, n) == ReprC(<<Word, HeaderSliceLayout(h, t, n)>>)
\* X = [T] with n elements (after header erasure), str = [u8]
ReleaseSlice(t, n) == ReprC(<<Word, L(t.size * n, t.align)>>)

-----------------------------------------------------------------------------
(* Addresses relative to the start of the block *)

\* what as_ptr - heap_ptr must be, and what ArcInner::offset_of_data recomputes from the value
DataOffset(v) == Extend(Word, v)[2]

\* C11 / C12: every handle is one pointer wide -- two for handles to slices and trait objects -- in every build
\* profile, and leaves the null niche to Option (so Option<handle> is as wide as the handle)
HandleWords == [Arc |-> 1, OffsetArc |-> 1, ArcBorrow |-> 1, ArcUnion |-> 1, UniqueArc |-> 1, ThinArc |-> 1,
                ArcSlice |-> 2, ArcDyn |-> 2, UniqueArcSlice |-> 2, ArcBorrowSlice |-> 2, ArcStr |-> 2, ArcHeaderSlice |-> 2]
HandleBytes == [k \in DOMAIN HandleWords |-> HandleWords[k] * Word.size]
\* where the header of a header-slice block lives, and where its slice starts
SliceOffset(h, t) == DataOffset(L(0, Max(h.align, t.align))) + RoundUp(h.size, t.align)
\* where thin_to_thick reads the recorded length: field `length` of HeaderWithLength<H>
LengthOffset(h, t) == DataOffset(L(0, Max(Max(h.align, 8), t.align))) + RoundUp(h.size, 8)

-----------------------------------------------------------------------------
(* The matrix *)

Shapes == {L(s, a) : s \in 0..MaxSize, a \in Aligns}
RealShapes == {l \in Shapes : l.size % l.align = 0}      \* every Rust type's size is a multiple of its alignment
ElemShapes == {l \in RealShapes : l.size > 0}            \* constructors refuse zero-sized elements

VARIABLE c      \* the case under examination
Init == c \in [h : RealShapes, t : RealShapes, n : 0..MaxLen]
Next == UNCHANGED c
Spec == Init /\ [][Next]_c

\* C05: the hand-computed request equals what the release path derives from the pointer
AllocEqRelease ==
    /\ AllocNew(c.t) = ReleaseSized(c.t)
    /\ AllocUninit(c.t) = ReleaseSized(c.t)
    /\ AllocFromBox(c.t) = ReleaseSized(c.t)
    /\ c.t.size > 0 =>
         /\ AllocHeaderSlice(c.h, c.t, c.n) = ReleaseHeaderSlice(c.h, c.t, c.n)
         /\ AllocHeaderSlice(WithLength(c.h), c.t, c.n) = ReleaseHeaderSlice(WithLength(c.h), c.t, c.n)
         \* header erasure: Arc<HeaderSlice<(), [T]>> and Arc<[T]> describe the same block
         /\ AllocHeaderSlice(Unit, c.t, c.n) = ReleaseSlice(c.t, c.n)

\* C05: the block is large enough for count + header + n elements and each part is aligned
FitsContents ==
    /\ LET a == AllocNew(c.t) IN
         /\ DataOffset(c.t) >= 8 /\ DataOffset(c.t) % c.t.align = 0
         /\ DataOffset(c.t) + c.t.size <= a.size /\ a.align >= Max(8, c.t.align)
    /\ c.t.size > 0 =>
         LET a  == AllocHeaderSlice(c.h, c.t, c.n)
             hs == HeaderSliceLayout(c.h, c.t, c.n)
             d  == DataOffset(hs)
             so == d + FieldOffset(<<c.h, L(c.t.size * c.n, c.t.align)>>, 2)
         IN  /\ d >= 8 /\ d % c.h.align = 0
             /\ so % c.t.align = 0 /\ so >= d + c.h.size
             /\ so + c.t.size * c.n <= a.size
             /\ a.align >= Max(8, Max(c.h.align, c.t.align))
             /\ a.size % a.align = 0
             /\ so = SliceOffset(c.h, c.t)

\* C11: from_raw recomputes the data offset from the value's own layout and lands on the block start
FromRawInvertsIntoRaw ==
    /\ DataOffset(c.t) = FieldOffset(<<Word, c.t>>, 2)
    /\ c.t.size > 0 =>
         DataOffset(HeaderSliceLayout(c.h, c.t, c.n)) = FieldOffset(<<Word, HeaderSliceLayout(c.h, c.t, c.n)>>, 2)
    /\ DataOffset(L(c.t.size * c.n, c.t.align)) = FieldOffset(<<Word, L(c.t.size * c.n, c.t.align)>>, 2)

\* C10: a thin pointer finds the recorded length without knowing the length
ThinLengthOffsetIndependentOfLen ==
    c.t.size > 0 =>
        LET hl == WithLength(c.h)
            hs == HeaderSliceLayout(hl, c.t, c.n)
        IN  DataOffset(hs) + FieldOffset(<<c.h, Word>>, 2) = LengthOffset(c.h, c.t)

\* C12: every payload address is even, so ArcUnion's tag bit is free
TagBitFree ==
    /\ DataOffset(c.t) % 2 = 0
    /\ AllocNew(c.t).align % 2 = 0

Inv == AllocEqRelease /\ FitsContents /\ FromRawInvertsIntoRaw /\ ThinLengthOffsetIndependentOfLen /\ TagBitFree

-----------------------------------------------------------------------------
(* C05: a size computation that overflows is refused (checked with a small MaxIsize) *)

OverflowRefused ==
    \A h \in {L(0, 1), L(8, 8), L(12, 4)}, t \in {L(1, 1), L(4, 4), L(24, 8)}, n \in {0, 1, MaxIsize \div 4, MaxIsize \div 2, MaxIsize - 8, MaxIsize} :
        LET a == AllocHeaderSlice(h, t, n) IN
        \/ IsErr(a)
        \/ /\ ~IsErr(a) /\ a.size <= MaxIsize
           /\ a.size >= 8 + h.size + t.size * n

=============================================================================
