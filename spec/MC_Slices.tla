----------------------------- MODULE MC_Slices -----------------------------
EXTENDS Slices, Json
Children(s) == {t \in Slots : hnd[t].k # "none" /\ hnd[t].ln = s}
Node(s) == <<hnd[s].k, hnd[s].b, Cardinality(Children(s))>>
Roots == {s \in Slots : hnd[s].k # "none" /\ hnd[s].ln = 0}
RootBag == LET N == {Node(s) : s \in Roots} IN [n \in N |-> Cardinality({s \in Roots : Node(s) = n})]
CanonView == <<blk, RootBag>>
Emit == PrintT(<<"BEH", ToJson([h |-> hist', x |-> Proj(blk', hnd', res')])>>)
=============================================================================
