----------------------------- MODULE MC_Slices -----------------------------
EXTENDS Slices, Json
Children(s) == {t \in Slots : hnd[t].k # "none" /\ hnd[t].ln = s}
Node(s) == <<hnd[s].k, hnd[s].b, Cardinality(Children(s))>>
Roots == {s \in Slots : hnd[s].k # "none" /\ hnd[s].ln = 0}
RootBag == LET N == {Node(s) : s \in Roots} IN [n \in N |-> Cardinality({s \in Roots : Node(s) = n})]
CanonView == <<blk, RootBag>>
\* An action that leaves the specification's state unchanged (a refusal, a propagated panic) may still have
\* touched hidden implementation state. `quiet` remembers, for one step, that the last action was such a
\* no-op and which one; it is part of the VIEW, so the successors of a state are ALSO explored (and exported)
\* with the no-op as the preceding step of the history. This gives path coverage of length two through
\* self-loop edges, which plain edge coverage of the state graph does not.
VARIABLE quiet
NoOpTag == IF UNCHANGED <<blk, hnd>> /\ (res'.panicked \/ res'.verdict = "no")
           THEN <<res'.op, res'.panicked, res'.verdict>> ELSE <<>>
MCSpec == Init /\ quiet = <<>> /\ [][NextLowest /\ quiet' = NoOpTag]_<<vars, quiet>>
MCView == <<CanonView, quiet>>

Emit == PrintT(<<"BEH", ToJson([h |-> hist', x |-> Proj(blk', hnd', res')])>>)
=============================================================================
