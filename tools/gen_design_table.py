#!/usr/bin/env python3
"""Print the markdown table of seeded defects (DESIGN.md §12) from seeded/*/meta.json and patch.diff."""
import json, os, glob, re
V = os.path.dirname(os.path.dirname(os.path.abspath(__file__)))
rows = []
for d in sorted(glob.glob(os.path.join(V, "seeded", "C*-*"))):
    mid = os.path.basename(d)
    meta = json.load(open(os.path.join(d, "meta.json")))
    patch = open(os.path.join(d, "patch.diff")).read()
    files = sorted(set(re.findall(r"^\+\+\+ b/src/(\S+)", patch, re.M)))
    fn = re.findall(r"^@@.*@@.*?(fn \w+|impl[^{]*)", patch, re.M)
    site = ", ".join(files) + (": " + fn[0].strip()[:50] if fn else "")
    det = meta.get("detected_by", {})
    if isinstance(det, str):
        det = {}
    cell = "; ".join("%s: %s" % (p, "**detected** – " + re.sub(r"^VIOLATION \(exit 1\): ", "", v)[:150].replace("|", "/") if v.startswith("VIOLATION") else v) for p, v in det.items())
    demo = meta.get("ran", {}).get("demo", {})
    how = ",".join(k for k, v in demo.items() if v.get("fails_with_patch") and v.get("passes_without_patch"))
    rows.append("| %s | %s | %s | %s |" % (mid, site.replace("|", "/"), how, cell or "(not run yet)"))
print("| id | site | demonstrated by | quick check of its property |")
print("|---|---|---|---|")
print("\n".join(rows))
