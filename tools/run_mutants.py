#!/usr/bin/env python3
"""Apply each kept seeded defect to /repo, run the quick check of the property it breaks (plus any
extra checks given on the command line), record which checks raise a violation, and undo the change
straight afterwards. Usage: run_mutants.py [ids...] [--also C01,C04] [--tier quick]"""
import json, os, subprocess, sys, glob, re, time

VERIF = os.path.dirname(os.path.dirname(os.path.abspath(__file__)))
REPO = os.environ.get("REPO_DIR", "/repo")
SEEDED = os.path.join(VERIF, "seeded")


def main():
    args = [a for a in sys.argv[1:] if not a.startswith("--")]
    also = []
    tier = "quick"
    for a in sys.argv[1:]:
        if a.startswith("--also="):
            also = a.split("=")[1].split(",")
        if a.startswith("--tier="):
            tier = a.split("=")[1]
    st = subprocess.run(["git", "-C", REPO, "status", "--porcelain", "--untracked-files=no"], stdout=subprocess.PIPE, text=True).stdout.strip()
    if st:
        print("refusing: /repo has uncommitted changes:\n" + st)
        return 2
    summary = {}
    for d in sorted(glob.glob(SEEDED + "/C*-*m[0-9]")):
        mid = os.path.basename(d)
        prop = mid.split("-")[0]
        if args and mid not in args and prop not in args:
            continue
        patch = os.path.join(d, "patch.diff")
        r = subprocess.run(["git", "-C", REPO, "apply", patch])
        if r.returncode != 0:
            # written against an earlier base (before a `fix:` commit rewrote the function): the recorded outcome stands
            print(mid, "patch does not apply to this tree (kept: %s)" % json.load(open(os.path.join(d, "meta.json"))).get("detected_by") if os.path.exists(os.path.join(d, "meta.json")) else "patch does not apply")
            continue
        det = {}
        try:
            for p in [prop] + [x for x in also if x != prop]:
                t0 = time.time()
                r = subprocess.run([os.path.join(VERIF, "check"), p, "--tier", tier], cwd=VERIF, stdout=subprocess.PIPE, stderr=subprocess.STDOUT, text=True)
                viol = re.findall(r"^VIOLATION property=(\S+) replay=(\S+)", r.stdout, re.M)
                first = ""
                m = re.search(r"^VIOLATION.*\n((?:    .*\n){1,3})", r.stdout, re.M)
                if m:
                    first = " | ".join(x.strip() for x in m.group(1).splitlines())[:400]
                det[p] = {"exit": r.returncode, "violations": len(viol), "wall_s": round(time.time() - t0, 1), "first": first}
                for _, path in viol:
                    if os.path.exists(path):
                        os.remove(path)      # replays of seeded runs are not evidence about /repo
        finally:
            subprocess.run(["git", "-C", REPO, "checkout", "--", "."])
        summary[mid] = det
        meta_p = os.path.join(d, "meta.json")
        meta = json.load(open(meta_p)) if os.path.exists(meta_p) else {"id": mid, "breaks_property": prop}
        meta["detected_by"] = {p: ("VIOLATION (exit 1): " + v["first"]) if v["exit"] == 1 else ("not detected (exit %s)" % v["exit"]) for p, v in det.items()}
        meta.setdefault("detection_history", [])
        json.dump(meta, open(meta_p, "w"), indent=1)
        print(mid, {p: (v["exit"], v["violations"], v["wall_s"]) for p, v in det.items()}, flush=True)
    json.dump(summary, open(os.path.join(VERIF, "work", "mutants_%s.json" % tier), "w"), indent=1)
    # evidence files were rewritten by runs against a modified tree: they must be regenerated
    print("NOTE: evidence/*.json of the checks above now describe runs on seeded trees; re-run the checks on the unchanged tree")
    return 0


if __name__ == "__main__":
    sys.exit(main())
