#!/usr/bin/env python3
"""Confirm seeded defects delivered by the independent sub-agents, in a scratch worktree of /repo
(outside /repo and /verif): with the patch the unedited suite passes and the demonstration fails;
without it the demonstration passes. Confirmed ones are kept under /verif/seeded/<id>/."""
import json, os, shutil, subprocess, sys, glob, re

SRC = os.environ.get("MUT_SRC", "/tmp/mutout")
TAG = os.environ.get("MUT_TAG", "")
SCRATCH = "/tmp/mutscratch"
TGT = "/tmp/mutscratch_target"
OUT = "/verif/seeded"


def sh(cmd, cwd=None, timeout=1800, env=None):
    e = dict(os.environ, CARGO_NET_OFFLINE="true", CARGO_TARGET_DIR=TGT)
    if env:
        e.update(env)
    r = subprocess.run(cmd, cwd=cwd, shell=isinstance(cmd, str), stdout=subprocess.PIPE, stderr=subprocess.STDOUT, text=True, timeout=timeout, env=e)
    return r.returncode, r.stdout


def demo_cmds(notes):
    """how the demo is to be run: default, plus variants the notes ask for"""
    cmds = [("native", "cargo test --offline --test demo")]
    if "--no-default-features" in notes:
        cmds.append(("no_std", "cargo test --offline --no-default-features --test demo"))
    if "--release" in notes:
        cmds.append(("release", "cargo test --offline --release --test demo"))
    for feats in sorted(set(re.findall(r"--features[ =]([a-z_,\-]+)", notes))):
        if feats not in ("unsize,arc-swap",):
            cmds.append(("features:" + feats, "cargo test --offline --features %s --test demo" % feats))
    if "triomphe_verif" in notes:
        # demonstrations that observe the orderings requested of the count through the crate's own tracer hook
        cmds.append(("hook", 'RUSTFLAGS="--cfg triomphe_verif --check-cfg cfg(triomphe_verif)" cargo test --offline --test demo'))
    if "miri" in notes.lower():
        cmds.append(("miri", "cargo +nightly miri test --offline --test demo"))
    return cmds


def main():
    only = sys.argv[1:]
    if os.path.exists(SCRATCH):
        subprocess.run(["git", "-C", "/repo", "worktree", "remove", "--force", SCRATCH])
    # MUT_BASE: the commit the defects were written against (default: HEAD)
    subprocess.run(["git", "-C", "/repo", "worktree", "add", "-q", "--detach", SCRATCH, os.environ.get("MUT_BASE", "HEAD")], check=True)
    results = {}
    try:
        for d in sorted(glob.glob(SRC + "/C*/m*")):
            prop, m = d.split("/")[-2:]
            mid = "%s-%s%s" % (prop, TAG, m)
            if only and mid not in only and prop not in only:
                continue
            patch, demo, notes = (os.path.join(d, x) for x in ("patch.diff", "demo.rs", "notes.md"))
            if not (os.path.exists(patch) and os.path.exists(demo)):
                continue
            ntext = open(notes).read() if os.path.exists(notes) else ""
            sh("git checkout -q -- . && git clean -fdq", cwd=SCRATCH)
            rc, o = sh(["git", "apply", patch], cwd=SCRATCH)
            rec = {"id": mid, "property": prop, "applies": rc == 0}
            if rc != 0:
                results[mid] = rec
                print(mid, "patch does not apply")
                continue
            rc, o = sh("cargo test --offline 2>&1 | tail -30", cwd=SCRATCH)
            passed = re.findall(r"test result: ok\. (\d+) passed", o)
            rec["suite_with_patch"] = passed
            rec["suite_ok"] = (len(passed) >= 2 and passed[0] == "39")
            rc2, o2 = sh('RUSTFLAGS="--cfg triomphe_verif --check-cfg cfg(triomphe_verif)" cargo build --offline --features unsize,arc-swap 2>&1 | tail -3', cwd=SCRATCH)
            rec["hook_build_ok"] = "Finished" in o2
            os.makedirs(os.path.join(SCRATCH, "tests"), exist_ok=True)
            shutil.copy(demo, os.path.join(SCRATCH, "tests", "demo.rs"))
            rec["demo"] = {}
            for tag, cmd in demo_cmds(ntext):
                rcw, ow = sh(cmd + " 2>&1 | tail -15", cwd=SCRATCH, timeout=2400)
                fails_with = ("test result: FAILED" in ow) or ("error: test failed" in ow) or ("Undefined Behavior" in ow) or ("SIGABRT" in ow and "test result: ok" not in ow) or ("signal:" in ow)
                # without the patch
                sh(["git", "apply", "-R", patch], cwd=SCRATCH)
                rco, oo = sh(cmd + " 2>&1 | tail -15", cwd=SCRATCH, timeout=2400)
                passes_without = "test result: ok" in oo and "FAILED" not in oo
                sh(["git", "apply", patch], cwd=SCRATCH)
                rec["demo"][tag] = {"cmd": cmd, "fails_with_patch": fails_with, "passes_without_patch": passes_without,
                                    "tail_with": ow[-600:], "tail_without": oo[-300:]}
            rec["confirmed"] = rec["suite_ok"] and any(v["fails_with_patch"] and v["passes_without_patch"] for v in rec["demo"].values())
            results[mid] = rec
            print(mid, "suite_ok=%s" % rec["suite_ok"], {k: (v["fails_with_patch"], v["passes_without_patch"]) for k, v in rec["demo"].items()}, "CONFIRMED" if rec["confirmed"] else "NOT CONFIRMED", flush=True)
            if rec["confirmed"]:
                od = os.path.join(OUT, mid)
                os.makedirs(od, exist_ok=True)
                shutil.copy(patch, os.path.join(od, "patch.diff"))
                shutil.copy(demo, os.path.join(od, "demo.rs"))
                if ntext:
                    open(os.path.join(od, "notes.md"), "w").write(ntext)
                needs = ""
                mm_ = re.search(r"(?is)(manifest|trigger|needs)[^\n]*\n(.{0,600})", ntext)
                meta = {"id": mid, "breaks_property": prop,
                        "needs_to_manifest": "see notes.md (written by the independent sub-agent that seeded the defect)",
                        "confirmed_by": "tools/confirm_mutants.py in scratch worktree /tmp/mutscratch of /repo %s" % os.environ.get("MUT_BASE", "HEAD"),
                        "ran": {"suite_with_patch": "cargo test --offline -> %s passed" % "+".join(passed),
                                "hook_build_with_patch": rec["hook_build_ok"],
                                "demo": {k: {kk: vv for kk, vv in v.items() if kk in ("cmd", "fails_with_patch", "passes_without_patch")} for k, v in rec["demo"].items()}},
                        "detected_by": "(filled in by tools/run_mutants.py)"}
                json.dump(meta, open(os.path.join(od, "meta.json"), "w"), indent=1)
    finally:
        subprocess.run(["git", "-C", "/repo", "worktree", "remove", "--force", SCRATCH])
        shutil.rmtree(TGT, ignore_errors=True)
    json.dump(results, open(os.path.join(SRC, "confirm_results.json"), "w"), indent=1)


if __name__ == "__main__":
    main()
