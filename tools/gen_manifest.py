#!/usr/bin/env python3
"""Regenerate /verif/MANIFEST.json from the claimed-property table below (kept next to the code that
implements the checks, so the two cannot drift)."""
import json, os, sys
sys.path.insert(0, os.path.dirname(os.path.abspath(__file__)))
import props as P

HOOK_COMMITS = ["8ab567c", "215975f"]
T_GRAPH = "TLA+ handle-level specification model-checked by TLC; every transition exported and replayed into the real crate (spec->impl conformance)"
T_MM = "TLA+ micro-step specification under a view-based release/acquire/relaxed memory model, checked by TLC with protocol constants extracted from the running code; recorded concurrent executions and injected preemptions of the real crate validated by TLC against the trace specification"
T_LAY = "TLA+ layout arithmetic checked by TLC over the size/alignment matrix; real allocator records compared with the table TLC evaluates"
N_GRAPH = "TLC exhaustive within the stated bounds; canonical VIEW; harness allocator/payload instrumentation; single-threaded histories"
N_MM = "promise-free RC11 fragment, SeqCst as AcqRel; protocol extracted through the cfg(triomphe_verif) tracer; bounds per configuration; recorded runs are samples of schedules (seeded cooperative scheduler), injected preemptions are exhaustive for one or two preemptions per call"
N_LAY = "Layout.tla transcribes core::alloc::Layout and the repr(C) algorithm; real matrix is a sub-lattice of the TLC matrix"

CLAIMS = {
 "C01": ("model_checking", "TLC checks the ownership invariants (live iff owned, destroyed once, freed once, no dangling handle, quiescent clean) on every reachable state of four handle-level specifications (sized, thin, slices, uninit families); every transition of each state graph, plus random walks up to 16 slots / 40 blocks / depth 400, is replayed into the real crate (std and no_std builds) with destructor / allocator / poison / red-zone observation and a drain suffix; clone/drop schedules and injected preemptions under ArcMM.", N_GRAPH + "; " + N_MM, T_GRAPH + " + " + T_MM, "DESIGN.md §6 C01"),
 "C02": ("model_checking", "Every interleaving and every legal (possibly stale) load outcome of 2-4 threads running clone/read/drop, under the protocol (operations and orderings) extracted from the running code: one destroyer, every access happens-before destruction and deallocation.", N_MM, T_MM, "DESIGN.md §6 C02"),
 "C03": ("model_checking", "Sequential half: verdict = sole owner as an action property on every transition, replayed with every co-owner kind. Schedule half: ArcMM with a polling-and-writing thread under the extracted protocol.", N_GRAPH + "; " + N_MM, T_GRAPH + " + " + T_MM, "DESIGN.md §6 C03"),
 "C04": ("model_checking", "CountAccurate invariant and CountSteps action property on the specifications; after every replayed behaviour every count accessor of every handle (also inside callbacks) is compared with the specification; count = handles at every quiescent point of recorded and injected concurrent executions; the reduced core CountInd.tla proved inductive by Apalache.", N_GRAPH + "; " + N_MM, T_GRAPH + " + " + T_MM + " + Apalache inductive invariant", "DESIGN.md §6 C04"),
 "C05": ("model_checking", "Layout.tla invariants (alloc = release, fits, aligned, overflow refused) over the whole matrix; the allocator's (size, align) at alloc and dealloc for every constructor x release path of the real sub-lattice equals the specification's table.", N_LAY, T_LAY, "DESIGN.md §6 C05"),
 "C06": ("model_checking", "Ctor.tla models every slice constructor step by step; TLC checks that a handle is produced only with every slot written from the input in order, that honest inputs always succeed and that the source's storage is released; each terminal state (constructor x length up to 300 x capacity x hint regime) is run against the real constructor with identity-tracked elements. Sized constructors are covered by the handle-level graph.", N_GRAPH, "TLA+ constructor specification (Ctor.tla) model-checked by TLC; every case it enumerates executed on the real crate and compared", "DESIGN.md §6 C06"),
 "C07": ("fault_enumeration", "Ctor.tla with fault parameters (panic at the k-th next, misreported and changing lengths/hints, allocation failure) checked by TLC for at-most-once destruction and no exposed uninitialised slot; every enumerated fault case run on the real crate, observation must be within the specification's allowed outcome; panicking Clone / callbacks / with_arc_mut replacement in the handle-level graphs; allocation failure in child processes.", N_GRAPH, "TLA+ fault-parameterised specification checked by TLC; TLC-enumerated fault cases injected into the real crate", "DESIGN.md §6 C07"),
 "C08": ("model_checking", "Copy-on-write action properties (isolation, clones iff shared, fresh sole-owned block) on every transition; replay compares block identity, clone calls and values through all handles; ArcMM make_mut program race-free under the extracted protocol.", N_GRAPH + "; " + N_MM, T_GRAPH + " + " + T_MM, "DESIGN.md §6 C08"),
 "C09": ("model_checking", "Conservation invariants (destroyed xor moved out, once) and MovesOutOnlyWhenSole on the specification; replay with identity accounting of the moved-out value; ArcMM with threads racing unwrap/drop.", N_GRAPH + "; " + N_MM, T_GRAPH + " + " + T_MM, "DESIGN.md §6 C09"),
 "C10": ("model_checking", "Thin.tla: every ThinArc sits on a block whose recorded length is the slice length; thin<->fat conversions count-neutral; mismatching into_thin panics and releases; with_arc_mut write-back on return and on unwind after replace/swap. Every transition (plus random walks) replayed; thin view compared with the fat view address for address; Layout.tla length-word offset over the matrix.", N_GRAPH + "; " + N_LAY, T_GRAPH + " + " + T_LAY, "DESIGN.md §6 C10"),
 "C11": ("model_checking", "Layout.tla data offsets and from_raw inversion over the matrix; pointer values of every accessor compared with the allocator's block address and the specification's offsets for every shape and into/from pairing; raw round trips in the handle-level graph.", N_LAY + "; " + N_GRAPH, T_LAY + " + " + T_GRAPH, "DESIGN.md §6 C11"),
 "C12": ("model_checking", "ArcUnion variant/typed-release invariants on the specification, union histories interleaved with plain Arcs replayed; tag bit free and typed layout over ordered shape pairs of the matrix.", N_GRAPH + "; " + N_LAY, T_GRAPH + " + " + T_LAY, "DESIGN.md §6 C12"),
 "C14": ("model_checking", "Compare.tla: coherence laws (eq iff partial_cmp = Equal, duality, header-then-slice order, eq implies hash-eq, see-through with the same-allocation licence) checked by TLC on every pair of the exhaustive small domain for three carriers; the reference table it exports is compared with the real value types and with every handle kind (Arc, ThinArc, OffsetArc, ArcBorrow, ArcUnion) including relational operators, hashing, Debug/Display and map-key use. Known deviations are listed in known_findings.json.", "reference semantics = Compare.tla's ValEq/ValCmp; exhaustive over the small domain only", "TLA+ comparison specification checked by TLC; TLC-exported reference table compared with the real impls on all pairs", "DESIGN.md §6 C14"),
 "C15": ("model_checking", "Uninit.tla: no slot object destroyed unless written and released through an init-typed handle, header destroyed exactly once, assume_init changes the type only, refused deprecated writes change nothing; every transition over every subset of written slots, constructor, sharing state and drop/assume_init order replayed with identity-tracked header (sized and zero-sized) and elements and fresh-memory poison.", N_GRAPH, T_GRAPH, "DESIGN.md §6 C15"),
 "C16": ("model_checking", "Triomphe.tla with a 4-bit count word and mem::forget: TLC checks that the owner count never exceeds what the word can hold while the process runs and that the abort is terminal; the outcome table of a clone for every value of the word is compared with child processes that preset the real count (10 start classes x 16 clone entry points x std and no_std builds).", "W-bit scale model; counts preset through the tracer; child processes", "TLA+ W-bit count model checked by TLC; TLC's outcome table compared with child processes of the real crate", "DESIGN.md §6 C16"),
 "C17": ("model_checking", "Serde.tla (trace specification): serialisation is an observer whose serializer calls equal those of the value (errors included); deserialisation yields a fresh sole owner of T's own result or T's own error with no allocation left. Recorded events of the real crate (recording serializer / token deserializer, fault at every k-th callback, every truncation of the input, Arc / shared Arc / UniqueArc, seven payload types) are validated by TLC.", "recorded-trace validation; SerCalls uninterpreted (both logs supplied by the trace)", "TLA+ trace specification (Serde.tla); events recorded from the real crate validated by TLC", "DESIGN.md §6 C17"),
}
NA = {
 "C13": "compile-time trait-solver / borrow-checker judgement: no state or transition for a TLA+ specification to explore, and no recordable execution distinguishes a wrong bound (DESIGN.md §6 C13)",
}
PENDING = "check under construction in this session (DESIGN.md §11 build order); will be claimed once its check exists"


def main():
    checks = []
    for pid in sorted(P.PROPS):
        if pid not in CLAIMS:
            continue
        cat, text, note, tech, ref = CLAIMS[pid]
        checks.append({"property_id": pid, "quick_cmd": "./check %s --tier quick" % pid,
                       "thorough_cmd": "./check %s --tier thorough" % pid,
                       "evidence_file": "evidence/%s.json" % pid,
                       "replay_cmd_template": "./check %s --replay {path}" % pid, "engine": "tlc+tvh",
                       "level_claimed": {"category": cat, "text": text, "design_ref": ref},
                       "level_note": note, "technique": tech})
    claimed = {c["property_id"] for c in checks}
    allp = [json.loads(l)["id"] for l in open(os.path.join(os.path.dirname(__file__), "..", "properties.jsonl"))]
    na = [{"property_id": p, "reason": NA.get(p, PENDING)} for p in allp if p not in claimed]
    m = {"version": 1, "setup_cmd": "./setup.sh",
         "hooks": {"guard": "triomphe_verif",
                   "enable": "RUSTFLAGS=\"--cfg triomphe_verif --check-cfg cfg(triomphe_verif)\" (set in /verif/harness/.cargo/config.toml, so only harness builds see it)",
                   "baseline_off_cmd": "cd /repo && cargo test --workspace --no-fail-fast --offline",
                   "source_commits": HOOK_COMMITS, "add_only": True},
         "engines": [{"name": "tlc+tvh", "path": "/verif/check", "serves_properties": sorted(claimed),
                      "kind_free_text": "TLA+ specifications in /verif/spec checked by TLC (tla2tools 1.8.0); Rust conformance harness /verif/harness (tvh, tvm) replays TLC-generated behaviours into triomphe, extracts the count protocol from the running code, and records allocator/destructor observations"}],
         "checks": checks, "not_applicable": na,
         "notes": "see DESIGN.md; known findings in known_findings.json; genuine defects repaired in /repo by fix: commits 35f1c33 (C14, ordering of HeaderSlice<HeaderWithLength<H>, T>) and 940451e (C07, OffsetArc::make_mut write-back on unwind)"}
    json.dump(m, open(os.path.join(os.path.dirname(__file__), "..", "MANIFEST.json"), "w"), indent=1)
    print("claimed:", sorted(claimed), "not claimed:", [x["property_id"] for x in na])


if __name__ == "__main__":
    main()
