"""Constructor / fault stages (C06, C07): TLC enumerates the cases of Ctor.tla and checks its invariants;
every case is run against the real constructors; allocation failure runs in child processes."""
import json, os, subprocess, time
from vlib import *

LENS_Q = "{0,1,2,3,7,8,9,16,17,32,33,63,64,65,255,256,257}"
LENS_T = "{0,1,2,3,4,5,7,8,9,15,16,17,31,32,33,63,64,65,127,128,129,255,256,257,300}"
N_OBSERVERS = 81
N_RELEASES = 16
N_ZST = 24
ALLOCFAIL = ["new", "unique_new", "new_overaligned", "new_large", "from_box_large", "new_uninit_overaligned", "from_box", "new_uninit", "new_uninit_slice", "uninit_hdr", "fhi", "thin", "vec", "slice", "str",
             "collect_exact", "collect_inexact", "make_mut"]


def ctor_cfg(tier, ctors):
    return "\n".join(["SPECIFICATION Spec", "CONSTANTS", "  Lens = %s" % (LENS_T if tier == "thorough" else LENS_Q),
                      "  FaultLens = %s" % ("{0,1,2,3,4,5,6,8}" if tier == "thorough" else "{0,1,2,3,5,8}"),
                      "  Ctors = %s" % tla_set(ctors), "  NObservers = %d" % N_OBSERVERS, "  NReleases = %d" % N_RELEASES, "  NZst = %d" % N_ZST,
                      "INVARIANT Inv", "INVARIANT Export", "CHECK_DEADLOCK FALSE", ""])


def ctor_stage(prop, tier, name, ctors, faults, only_cats=None, only_k=None):
    wd = workdir(prop)
    stage_spec(wd, ["Ctor.tla", "MC_Ctor.tla"])
    exe = build_harness("a")
    res = {"name": name, "states": 0, "transitions": 0, "evaluations": 0, "nontrivial": 0, "traces": 0, "samples": [],
           "violations": [], "notes": [], "exhaustive": True, "detail": {}}
    out, st = run_tlc(wd, "MC_Ctor.tla", ctor_cfg(tier, ctors), name, workers=8, timeout=3000)
    if not st["ok"]:
        raise ToolError("Ctor.tla does not satisfy its invariants on the model: %s (see %s)" % (st["error"], out))
    res["states"], res["transitions"], res["tlc"] = st["distinct"], st["generated"], st
    if not faults:
        # C06 looks at honest inputs only: keep the cases the specification marks as succeeding without a fault
        keep = os.path.join(wd, name + ".honest.out")
        with open(out, errors="replace") as f, open(keep, "w") as g:
            for line in f:
                if line.startswith('<<"CASE"') and '\\"result\\":\\"ok\\"' in line:
                    g.write(line)
        out = keep
    summ = os.path.join(wd, name + ".ctor.json")
    r = subprocess.run([exe, "ctor", out, summ], cwd=wd, stdout=subprocess.PIPE, stderr=subprocess.STDOUT, text=True, timeout=1800)
    if r.returncode not in (0, 1) or not os.path.exists(summ):
        res["violations"].append({"stage": name, "key": "crash-in-ctor-cases", "errors": ["[crash] the constructor run died (exit %s): %s" % (r.returncode, r.stdout[-300:])]})
        return res
    s = json.load(open(summ))
    res["evaluations"] = s["cases"]
    res["traces"] = s["cases"]
    res["nontrivial"] = s["nontrivial"] if faults else s["cases"]
    res["samples"] = s["samples"][:2]
    res["rule"] = ("one run per terminal state of Ctor.tla (constructor x actual length x reported lengths/hints x panic point x capacity slack); "
                   "non-trivial = a fault is injected or the input misreports (C07), every length/constructor/hint regime (C06)")
    for v in s["violations"]:
        if only_k and v["case"]["ctor"] in only_k and v["case"]["k"] not in only_k[v["case"]["ctor"]]:
            continue  # cases of that constructor family which concern another property
        if only_cats:
            v["errors"] = [e for e in v["errors"] if e.startswith("[") and e[1:e.index("]")] in only_cats]
            if not v["errors"]:
                continue
        c = v["case"]
        key = "ctor:%s:a=%s:k=%s:l1=%s:l2=%s:lo=%s:up=%s:cap=%s:v=%s" % (c["ctor"], c["a"], c["k"], c["l1"], c["l2"], c["lo"], c["up"], c["cap"], v["variant"])
        res["violations"].append({"stage": name, "key": key, "errors": v["errors"], "case": c, "variant": v["variant"]})
    if faults and "fhi" in ctors:
        # allocation failure: the process must end through the allocation-error path
        n = 0
        for ct in ALLOCFAIL:
            for j in (1, 2, 3):
                r = subprocess.run([exe, "allocfail", ct, str(j)], cwd=wd, stdout=subprocess.PIPE, stderr=subprocess.STDOUT, text=True, timeout=120)
                n += 1
                o = r.stdout
                if r.returncode == -6 and "memory allocation of" in o:
                    continue
                if r.returncode == 0 and "NOALLOC" in o:
                    continue
                res["violations"].append({"stage": name, "key": "allocfail:%s:%d" % (ct, j),
                                          "errors": ["[exit] allocation %d of %s fails: the process ended with status %s (%s), the specification says: abort through the allocation-error path"
                                                     % (j, ct, r.returncode, o.strip()[-160:])]})
        res["evaluations"] += n
        res["nontrivial"] += n
        res["detail"]["allocfail_children"] = n
    return res


def replay_ctor(prop, v):
    if "case" not in v:
        return ["[tlc] " + e for e in v.get("errors", [])]
    wd = workdir(prop)
    exe = build_harness("a")
    c = dict(v["case"])
    c["leak_ok"] = (c.get("leak_ok") or []) + [1] * 400 if v["case"].get("result") == "panic" else [0] * 400
    p = os.path.join(wd, "single_case.out")
    with open(p, "w") as f:
        f.write('<<"CASE", "%s">>\n' % json.dumps(c, separators=(",", ":")).replace('"', '\\"'))
    summ = os.path.join(wd, "single_case.json")
    r = subprocess.run([exe, "ctor", p, summ], cwd=wd, stdout=subprocess.PIPE, stderr=subprocess.STDOUT, text=True)
    if r.returncode not in (0, 1):
        return ["[crash] exit %s" % r.returncode]
    errs = []
    for x in json.load(open(summ))["violations"]:
        errs += x["errors"]
    return errs
