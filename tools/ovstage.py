"""C16 stage: W-bit model of the count word checked by TLC (no wrap, abort terminal); the real crate is
driven in child processes with the count preset through the tracer."""
import json, os, subprocess
from vlib import *

ENTRIES = ["arc", "arc_overaligned", "arc_slice", "arc_str", "arc_dyn", "thin", "thin_with_arc_clone", "offset_clone", "offset_clone_arc",
           "offset_with_arc_clone", "with_raw_offset_arc_clone", "borrow_clone_arc", "borrow_with_arc_clone", "union_first", "union_second",
           "refcnt_inc", "arc_raced2", "arc_raced3", "arc_clone_from", "offset_clone_from", "thin_clone_from", "union_clone_from"]
# start class -> value of the W = 4 bit model (MAX = 7)
CLASSES = {"1": 1, "2": 2, "2^31": 3, "2^32": 4, "imax-1": 6, "imax": 7, "imax+1": 8, "imax+2": 9, "umax-1": 14, "umax": 15}
REAL = {"1": 1, "2": 2, "2^31": 1 << 31, "2^32": 1 << 32, "imax-1": (1 << 63) - 2, "imax": (1 << 63) - 1, "imax+1": 1 << 63,
        "imax+2": (1 << 63) + 1, "umax-1": (1 << 64) - 2, "umax": (1 << 64) - 1}


def overflow_stage(prop, tier, name):
    wd = workdir(prop)
    stage_spec(wd, ["Triomphe.tla", "MC_Overflow.tla"])
    res = {"name": name, "states": 0, "transitions": 0, "evaluations": 0, "nontrivial": 0, "traces": 0, "samples": [],
           "violations": [], "notes": [], "exhaustive": True, "detail": {}}
    cfg = "\n".join(["SPECIFICATION Spec", "CONSTANTS", "  NSlots = %d" % (3 if tier == "quick" else 4), "  NBlocks = 1", "  MaxFrames = 1",
                     "  CountBits = 4", "  KeepHist = FALSE", '  Hows = {"new"}',
                     '  Ops = {"New", "Clone", "CloneArc", "Drop", "Forget", "IntoOff", "FromOff", "FromFirst", "Borrow", "Enter", "Exit"}',
                     "VIEW PlainView", "INVARIANT Invariants", "PROPERTY ActionsOK", "CHECK_DEADLOCK FALSE", ""])
    out, st = run_tlc(wd, "MC_Overflow.tla", cfg, name, workers=8, timeout=3000)
    if not st["ok"]:
        raise ToolError("the W-bit count model violates its invariants: %s (see %s)" % (st["error"], out))
    res["states"], res["transitions"], res["tlc"] = st["distinct"], st["generated"], st
    table = None
    for line in open(out, errors="replace"):
        if line.startswith('<<"TABLE"'):
            table = json.loads(line.rstrip()[len('<<"TABLE", "'):-len('">>')].replace('\\"', '"'))
    if table is None:
        raise ToolError("TLC did not print the clone outcome table")
    n = 0
    for cfgname in ("a", "b"):
        exe = build_harness(cfgname)
        for ent in ENTRIES:
            if prop == "C12" and not ent.startswith(("union", "borrow")):
                continue
            for cls, mv in CLASSES.items():
                want0 = want = table[str(mv)] if isinstance(table, dict) else table[mv]
                # the process must die whatever its environment: also with a standard error stream that rejects every write
                for errname in (("pipe",) if want == "ok" else ("pipe", "/dev/full")):
                    if errname == "pipe":
                        r = subprocess.run([exe, "overflow", ent, cls], cwd=wd, stdout=subprocess.PIPE, stderr=subprocess.STDOUT, text=True, timeout=120)
                    else:
                        if not os.path.exists(errname):
                            continue
                        with open(errname, "w") as ef:
                            r = subprocess.run([exe, "overflow", ent, cls], cwd=wd, stdout=subprocess.PIPE, stderr=ef, text=True, timeout=120)
                    n += 1
                    o = r.stdout
                    tag = "%s from count %s (%s build%s)" % (ent, cls, "std" if cfgname == "a" else "no_std", "" if errname == "pipe" else ", stderr = " + errname)

                    def bad(msg):
                        res["violations"].append({"stage": name, "key": "overflow:%s:%s:%s%s" % (ent, cls, cfgname, "" if errname == "pipe" else ":" + errname),
                                                  "entry": ent, "class": cls, "cfg": cfgname, "stderr": errname,
                                                  "errors": ["[abort] %s: %s; the specification says: %s" % (tag, msg, want)]})
                    if "CALLING" not in o:
                        raise ToolError("overflow child did not reach the call: %s" % o[-200:])
                    after = o.split("CALLING", 1)[1]
                    want = want0
                    if "ADVERSARY-FIRED" in after:
                        # a second clone (another thread's) got in between two count operations of this one: the count
                        # this clone finally increments is one higher
                        tag += ", another clone between its count operations"
                        want = "abort" if want0 != "ok" or mv + 1 > 15 else (table[str(mv + 1)] if isinstance(table, dict) else table[mv + 1])
                        if "ADVERSARY-RETURNED" not in after:
                            want = "abort"     # the adversary's own clone ran into the limit
                    if want != "ok" and cfgname == "a" and "PANIC-HOOK-RAN" in after:
                        bad("the process went through the panic machinery (the panic hook ran) although the count had passed the limit")
                        continue
                    if want == "ok":
                        if r.returncode != 0 or "RETURNED" not in after:
                            bad("a clone below the limit did not return (exit %s, %s)" % (r.returncode, after.strip()[:80]))
                        else:
                            c = int(after.split("count=")[1].split()[0], 16)
                            exp = REAL[cls] + (2 if "ADVERSARY-FIRED" in after else 1)
                            if c != exp:
                                bad("the count went from %#x to %#x, expected %#x (one per clone)" % (REAL[cls], c, exp))
                    else:
                        if "RETURNED" in after:
                            bad("the clone returned a handle although the count had passed the limit (%s)" % after.strip()[:80])
                        elif "CAUGHT-PANIC" in after:
                            bad("the overflow guard raised a catchable panic instead of terminating the process")
                        elif r.returncode != -6:
                            bad("the process ended with status %s instead of aborting" % r.returncode)
    res["evaluations"] = n
    res["traces"] = n
    res["nontrivial"] = n
    res["samples"] = [{"entry": "arc", "class": "imax+1", "model_count": 8, "spec_outcome": (table["8"] if isinstance(table, dict) else table[8])}, {"clone_outcome_table_W4": table}]
    res["rule"] = "every (clone entry point x start class x std/no_std build), each a child process; all distinct and non-trivial (a preset count and one clone)"
    return res


def replay_overflow(prop, v):
    exe = build_harness(v.get("cfg", "a"))
    if v.get("stderr", "pipe") != "pipe" and os.path.exists(v["stderr"]):
        with open(v["stderr"], "w") as ef:
            r = subprocess.run([exe, "overflow", v["entry"], v["class"]], stdout=subprocess.PIPE, stderr=ef, text=True)
    else:
        r = subprocess.run([exe, "overflow", v["entry"], v["class"]], stdout=subprocess.PIPE, stderr=subprocess.STDOUT, text=True)
    return ["[tlc] exit %s: %s" % (r.returncode, r.stdout.strip()[-200:])] + v.get("errors", [])
