#!/bin/sh
# Make an independent copy of /verif (committed HEAD + working tree) and of /repo (HEAD) under /tmp/sb/<name>,
# with the harness pointed at the copied repository, so that long runs (mutants, equivalents, thorough tiers)
# do not collide with work in /verif and /repo. Remove it with: rm -rf /tmp/sb/<name>
set -e
NAME=${1:-run}
D=/tmp/sb/$NAME
rm -rf "$D"
mkdir -p "$D"
git -C /repo worktree prune
cp -a /repo "$D/repo"
rm -rf "$D/repo/target"
git -C "$D/repo" checkout -q -- . 2>/dev/null || true
mkdir -p "$D/verif"
rsync -a --exclude work --exclude 'harness/target' --exclude replays --exclude .git /verif/ "$D/verif/"
mkdir -p "$D/verif/work" "$D/verif/replays"
sed -i "s|path = \"/repo\"|path = \"$D/repo\"|" "$D/verif/harness/Cargo.toml" "$D/verif/harness/tvm/Cargo.toml"
# cargo resolves the lock file by path: refresh it offline
(cd "$D/verif/harness" && cargo update -p triomphe --offline >/dev/null 2>&1 || true)
echo "$D"
