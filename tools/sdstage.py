"""C17 stage: the real crate's serde glue is exercised with a recording serializer / token deserializer and
fault injection; the recorded events are validated by TLC against Serde.tla."""
import json, os, re, subprocess, shutil
from vlib import *


def serde_stage(prop, tier, name):
    wd = workdir(prop)
    stage_spec(wd, ["Serde.tla"])
    exe = build_harness("a")
    res = {"name": name, "states": 0, "transitions": 0, "evaluations": 0, "nontrivial": 0, "traces": 0, "samples": [],
           "violations": [], "notes": [], "exhaustive": True, "detail": {}}
    nd = os.path.join(wd, name + ".ndjson")
    if os.path.exists(nd):
        os.remove(nd)
    r = subprocess.run([exe, "serde", nd], cwd=wd, stdout=subprocess.PIPE, stderr=subprocess.STDOUT, text=True, timeout=600)
    if r.returncode != 0 or not os.path.exists(nd):
        res["violations"].append({"stage": name, "key": "crash-in-serde", "errors": ["[crash] the serde run died (exit %s): %s" % (r.returncode, r.stdout[-300:])]})
        return res
    lines = [json.loads(l) for l in open(nd)]
    cfg = "SPECIFICATION Spec\nINVARIANT TypeOK\nPOSTCONDITION Accepted\nCHECK_DEADLOCK FALSE\n"
    rest = lines
    offset = 0
    # validate; on a rejection report the event, cut it out and go on, so that every event is examined
    for attempt in range(12):
        cur = os.path.join(wd, "%s_%d.ndjson" % (name, attempt))
        with open(cur, "w") as f:
            for x in rest:
                f.write(json.dumps(x) + "\n")
        out, st = run_tlc(wd, "Serde.tla", cfg, "%s_%d" % (name, attempt), workers=1, timeout=600, java_opts=["-Xmx2g", "-Xss1g"], env={"TRACE": cur})
        res["states"] += st["distinct"]
        res["transitions"] += st["generated"]
        res.setdefault("tlc", st)
        txt = open(out, errors="replace").read()
        if st["ok"] and "TRACE-REJECTED" not in txt:
            break
        m = re.search(r"TRACE-REJECTED at event\", (\d+),", txt)
        if not m:
            raise ToolError("TLC failed on the serde trace: %s (see %s)" % (st["error"], out))
        i = int(m.group(1)) - 1
        ev = rest[i]
        why = []
        if ev["op"] == "ser":
            if not ev["same_calls"]: why.append("the serializer saw different calls than for the value itself")
            if not ev["same_result"]: why.append("the result (error) differs from serialising the value itself")
            if ev["count_after"] != ev["count_before"]: why.append("the count changed from %s to %s" % (ev["count_before"], ev["count_after"]))
            if ev["live_delta"] or ev["leaked"]: why.append("an allocation was made or left behind")
        elif ev["op"] == "bound":
            why.append("the payload %s Deserialize<'static> but the handle %s" % ("is" if ev["payload_is"] else "is not", "is" if ev["handle_is"] else "is not"))
        elif ev["op"] == "de_in_place":
            if not ev["agree"]: why.append("outcome differs from the value's own deserialiser (Ok vs Err, or a different error)")
            if ev["ok"] and (ev["count"] != 1 or not ev["moved"]): why.append("the handle is not a fresh sole owner afterwards (count %s, %s block)" % (ev["count"], "new" if ev["moved"] else "same"))
            if not ev["ok"] and (ev["count"] != ev["others"] + 1 or ev["moved"]): why.append("the handle was changed although deserialisation failed (count %s)" % ev["count"])
            if not ev["others_intact"]: why.append("another owner of the old value sees it changed")
            if not ev["value_ok"]: why.append("the handle does not hold the expected value afterwards")
            if ev["others"] and ev["others_count"] != (ev["others"] if ev["ok"] else ev["others"] + 1): why.append("the old value's count is %s" % ev["others_count"])
            if ev["left"]: why.append("%s allocation(s) left behind" % ev["left"])
        else:
            if not ev["agree"]: why.append("outcome differs from the value's own deserialiser (Ok vs Err, or a different error)")
            if ev["ok"] and not ev["value_equal"]: why.append("the value differs from what T's deserialiser yields")
            if ev["ok"] and (ev["count"] != 1 or not ev["fresh"]): why.append("not a fresh sole owner (count %s)" % ev["count"])
            if ev["live_after"]: why.append("%s allocation(s) left behind" % ev["live_after"])
            if not ev["same_calls"]: why.append("the deserializer was driven differently than by T")
        key = "serde:%s:%s:%s:%s" % (ev["op"], ev["kind"], ev["payload"], "; ".join(why) or "?")
        res["violations"].append({"stage": name, "key": key, "event": ev,
                                  "errors": ["[serde] %s %s<%s> with a fault at callback %s%s: %s" % (
                                      "serialising of" if ev["op"] == "ser" else "deserialising in place into" if ev["op"] == "de_in_place" else "deserialising of", "Arc" if ev["kind"].startswith("arc") else "UniqueArc",
                                      ev["payload"], ev["k"], ((" (input cut to %s tokens)" % ev["cut"]) if ev.get("cut") is not None and ev["op"] != "ser" else "") + ("" if ev.get("human_readable", 1) else " (is_human_readable = false)") + ((" with %s other owner(s)" % ev["others"]) if "others" in ev else ""),
                                      "; ".join(why) or "not a behaviour of Serde.tla")]})
        rest = [rest[0]] + rest[i + 1:]
        if len(rest) <= 1:
            break
    # one violation per distinct reason is enough
    seen, uniq = set(), []
    for v in res["violations"]:
        if v["key"] not in seen:
            seen.add(v["key"])
            uniq.append(v)
    res["violations"] = uniq
    res["evaluations"] = len(lines) - 1
    res["traces"] = len(lines) - 1
    res["nontrivial"] = sum(1 for x in lines[1:] if x.get("k", 0) != 0 or x.get("cut", 99) < 99)
    res["samples"] = [lines[1], lines[len(lines) // 2], lines[-1]]
    res["rule"] = ("one event per (payload type x Arc/shared Arc/UniqueArc x fault at the k-th serializer or deserializer callback, k = 0..calls+1, "
                   "plus every truncation of the input); non-trivial = a fault is injected")
    return res


def replay_serde(prop, v):
    r = serde_stage(prop, "quick", "replay")
    errs = []
    for x in r["violations"]:
        errs += x["errors"]
    return ["[tlc] " + e for e in errs]
