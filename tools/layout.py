"""Layout stages: TLC checks Layout.tla's invariants over the whole (size, align, length) matrix; the
real crate is run over a sub-lattice of shapes (tvm) and every record is compared with the table TLC
evaluates from the same module."""
import json, os, subprocess, time, re
from vlib import *

FULL = {"aligns": "{1,2,4,8,16,32,64,128,4096}", "maxsize": 64, "maxlen": 4}
SMALL = {"aligns": "{1,2,4,8,16,32,64}", "maxsize": 32, "maxlen": 3}


def lay_cfg(m, inv, isize=100000000):
    return "\n".join(["SPECIFICATION Spec", "CONSTANTS", "  Aligns = %s" % m["aligns"], "  MaxSize = %d" % m["maxsize"],
                      "  MaxLen = %d" % m["maxlen"], "  MaxIsize = %d" % isize, "INVARIANT %s" % inv, "CHECK_DEADLOCK FALSE", ""])


def build_tvm(full):
    tdir = os.path.join(HARNESS, "target", "cfg_a")
    cmd = ["cargo", "build", "--release", "--offline", "--target-dir", tdir, "-p", "tvm"] + (["--features", "tvm/full"] if full else [])
    t0 = time.time()
    r = sh(cmd, cwd=HARNESS, timeout=3000)
    if r.returncode != 0:
        sys_out = r.stdout[-4000:]
        print(sys_out)
        raise ToolError("matrix binary build failed")
    log("[build] tvm%s ready in %.1fs" % (" (full)" if full else "", time.time() - t0))
    return os.path.join(tdir, "release", "tvm")


def L(x):
    return "L(%d, %d)" % (x[0], x[1])


def table(wd, cases):
    """ask TLC to evaluate Layout.tla's operators on the cases; returns list of rows"""
    rows = []
    for c in cases:
        if c[0] == "hs":
            _, h, t, n = c
            rows.append('[alloc |-> AllocHeaderSlice(%s, %s, %d), allocwl |-> AllocHeaderSlice(WithLength(%s), %s, %d), '
                        'hdr |-> DataOffset(HeaderSliceLayout(%s, %s, %d)), slice |-> SliceOffset(%s, %s), '
                        'hdrwl |-> DataOffset(HeaderSliceLayout(WithLength(%s), %s, %d)), slicewl |-> SliceOffset(WithLength(%s), %s), '
                        'lenoff |-> LengthOffset(%s, %s), rel |-> ReleaseHeaderSlice(%s, %s, %d), relwl |-> ReleaseHeaderSlice(WithLength(%s), %s, %d)]'
                        % (L(h), L(t), n, L(h), L(t), n, L(h), L(t), n, L(h), L(t), L(h), L(t), n, L(h), L(t), L(h), L(t), L(h), L(t), n, L(h), L(t), n))
        elif c[0] == "slice":
            _, t, n = c
            rows.append('[alloc |-> AllocHeaderSlice(Unit, %s, %d), rel |-> ReleaseSlice(%s, %d), data |-> DataOffset(L(%d, %d))]'
                        % (L(t), n, L(t), n, t[0] * n, t[1]))
        else:
            _, t = c
            rows.append('[alloc |-> AllocNew(%s), box |-> AllocFromBox(%s), uninit |-> AllocUninit(%s), rel |-> ReleaseSized(%s), data |-> DataOffset(%s)]'
                        % (L(t), L(t), L(t), L(t), L(t)))
    mod = ["---- MODULE MC_LayoutTable ----", "EXTENDS Layout, Json", "Rows == <<", ",\n".join(rows), ">>",
           'ASSUME PrintT(<<"TABLE", ToJson(Rows)>>)', "===="]
    with open(os.path.join(wd, "MC_LayoutTable.tla"), "w") as f:
        f.write("\n".join(mod) + "\n")
    cfg = "SPECIFICATION Spec\nCONSTANTS\n  Aligns = {1}\n  MaxSize = 1\n  MaxLen = 0\n  MaxIsize = 100000000\nCHECK_DEADLOCK FALSE\n"
    out, st = run_tlc(wd, "MC_LayoutTable.tla", cfg, "table", workers=1, timeout=600, java_opts=["-Xmx4g", "-Xss64m"])
    for line in open(out, errors="replace"):
        if line.startswith('<<"TABLE"'):
            body = line.rstrip()[len('<<"TABLE", "'):-len('">>')].replace('\\"', '"')
            return json.loads(body)
    raise ToolError("TLC did not print the layout table: %s" % st)


def lay(v):
    return [v["size"], v["align"]]


def layout_stage(prop, tier, name):
    wd = workdir(prop)
    stage_spec(wd, ["Layout.tla"])
    res = {"name": name, "states": 0, "transitions": 0, "evaluations": 0, "nontrivial": 0, "traces": 0, "samples": [],
           "violations": [], "notes": [], "exhaustive": True, "detail": {}}
    # 1. the design: invariants over the whole matrix
    m = FULL if tier == "thorough" else SMALL
    out, st = run_tlc(wd, "Layout.tla", lay_cfg(m, "Inv"), "layout_inv", workers=8, timeout=3000)
    if not st["ok"]:
        raise ToolError("Layout.tla invariants do not hold on the model: %s" % st["error"])
    res["states"] += st["distinct"]
    res["transitions"] += st["generated"]
    res["tlc"] = st
    out2, st2 = run_tlc(wd, "Layout.tla", lay_cfg({"aligns": "{1,8}", "maxsize": 8, "maxlen": 0}, "OverflowRefused", 1023), "layout_ovf", workers=1)
    if not st2["ok"]:
        raise ToolError("Layout.tla OverflowRefused does not hold on the model: %s" % st2["error"])
    res["states"] += st2["distinct"]
    res["transitions"] += st2["generated"]
    # 2. the implementation over the real sub-lattice
    exe = build_tvm(tier == "thorough")
    nd = os.path.join(wd, "matrix.ndjson")
    if os.path.exists(nd):
        os.remove(nd)
    r = subprocess.run([exe, nd], cwd=wd, stdout=subprocess.PIPE, stderr=subprocess.STDOUT, text=True, timeout=1800)
    if r.returncode != 0:
        cur = "?"
        if os.path.exists(nd + ".progress"):
            cur = open(nd + ".progress").read().strip()
        res["violations"].append({"stage": name, "key": "crash-in-matrix:" + cur[:200],
                                  "errors": ["[crash] the process died (exit %s) while running the case %s" % (r.returncode, cur)]})
        return res
    recs = [json.loads(l) for l in open(nd)]
    # 3. the specification's table for exactly those cases
    cases = []
    for x in recs:
        if x["family"] == "hs":
            cases.append(("hs", tuple(x["h"]), tuple(x["t"]), x["n"]))
        elif x["family"] == "slice":
            cases.append(("slice", tuple(x["t"]), x["n"]))
        elif x["family"] == "sized":
            cases.append(("sized", tuple(x["t"])))
        elif x["family"] == "arcswap":
            pass
        elif x["family"] == "union":
            cases.append(("sized", tuple(x["a"])))
            cases.append(("sized", tuple(x["b"])))
    cases = sorted(set(cases), key=str)
    rows = table(wd, cases)
    exp = {c: rows[i] for i, c in enumerate(cases)}
    # 4. compare
    errs = []          # (category, key, message, record)
    for x in recs:
        fam = x["family"]
        tag = "%s %s/%s %s" % (fam, x.get("ctor"), x.get("path"), {k: x[k] for k in ("h", "t", "a", "b", "n", "len") if k in x})
        def bad(cat, msg):
            errs.append((cat, "%s|%s|%s" % (fam, x.get("ctor"), x.get("path")), "[%s] %s: %s" % (cat, tag, msg), x))
        if fam == "arcswap":
            if x["panicked"]:
                bad("panicked", "the ArcSwap scenario panicked")
                continue
            if x["counts"] != x["expected_counts"]:
                bad("count", "counts (a, b) along new/load_full/load/store/swap/compare_and_swap/into_inner are %s, the cell owning exactly one count of what it holds gives %s" % (x["counts"], x["expected_counts"]))
            for k, v in x["facts"].items():
                if v is not True:
                    bad("heap", "%s is false" % k)
            for which in ("deallocs_a", "deallocs_b"):
                if len(x[which]) != 1 or x[which][0][2] != 0:
                    bad("frees", "%s: %s" % (which, x[which]))
            if x["bad_events"]:
                bad("layout", "%d bad allocator/destructor event(s)" % x["bad_events"])
            continue
        if fam == "overflow":
            if not x["panicked"]:
                bad("alloc", "a size computation that overflows isize was not refused with a panic")
            if x["block_requests"]:
                bad("alloc", "an overflowing request reached the allocator")
            continue
        if x["panicked"]:
            bad("panicked", "the case panicked (an internal assertion of the round trip failed, or the crate panicked)")
            continue
        if fam == "hs":
            e = exp[("hs", tuple(x["h"]), tuple(x["t"]), x["n"])]
            wl = x["ctor"] in ("thin_iter", "thin_slice", "fat_into_thin")
            ealloc = lay(e["allocwl"] if wl else e["alloc"])
            ehdr, eslice = (e["hdrwl"], e["slicewl"]) if wl else (e["hdr"], e["slice"])
        elif fam == "slice":
            e = exp[("slice", tuple(x["t"]), x["n"])]
            ealloc, ehdr, eslice = lay(e["alloc"]), e["data"], e["data"]
        elif fam == "sized":
            e = exp[("sized", tuple(x["t"]))]
            ealloc = lay(e["box"] if x["ctor"] == "from_box" else e["uninit"] if x["ctor"] in ("new_uninit", "arc_new_uninit") else e["alloc"])
            ehdr = e["data"]
        else:
            e = exp[("sized", tuple(x["a"] if x["ctor"] == "first" else x["b"]))]
            ealloc, ehdr = lay(e["alloc"]), e["data"]
        mm = x["meas"]
        if x["alloc"] != ealloc:
            bad("size", "block requested as (size, align) = %s, specification says %s" % (x["alloc"], ealloc))
        if len(x["deallocs"]) != 1:
            bad("frees", "block released %d time(s)" % len(x["deallocs"]))
        else:
            d = x["deallocs"][0]
            if d[:2] != x["alloc"] or d[2] != 0:
                bad("layout", "block requested as %s but released as %s (status %s)" % (x["alloc"], d[:2], d[2]))
        if x["bad_events"]:
            bad("layout", "%d bad allocator/destructor event(s)" % x["bad_events"])
        if x["other_live"]:
            bad("frees", "%d allocation(s) made by the constructor other than the block were not returned" % x["other_live"])
        if mm.get("data_off") != ehdr:
            bad("addr", "value lives at block+%s, specification says block+%s" % (mm.get("data_off"), ehdr))
        if fam in ("hs",):
            if mm.get("hdr_off") != ehdr:
                bad("addr", "header at block+%s, specification says block+%s" % (mm.get("hdr_off"), ehdr))
            if mm.get("slice_off") != eslice:
                bad("addr", "slice at block+%s, specification says block+%s" % (mm.get("slice_off"), eslice))
            if "thin_len_field_off" in mm:
                if mm["thin_len_field_off"] != e["lenoff"]:
                    bad("thin", "recorded length at block+%s, specification says block+%s" % (mm["thin_len_field_off"], e["lenoff"]))
                if mm["thin_recorded_len"] != x["n"]:
                    bad("thin", "recorded length %s for a slice of %s" % (mm["thin_recorded_len"], x["n"]))
                if mm["thin_hdr_off"] != ehdr or mm["thin_slice_off"] != eslice:
                    bad("thin", "thin view sees header/slice at block+%s/+%s, fat view at block+%s/+%s" %
                        (mm["thin_hdr_off"], mm["thin_slice_off"], ehdr, eslice))
        if fam == "slice" and mm.get("slice_off") != eslice:
            bad("addr", "slice at block+%s, specification says block+%s" % (mm.get("slice_off"), eslice))
        for k, cat in (("heap_is_block", "heap"), ("deref_is_as_ptr", "addr"), ("data_aligned", "align"), ("hdr_aligned", "align"),
                       ("slice_aligned", "align"), ("contents_ok", "contents"), ("len_ok", "contents"),
                       ("offset_bits_are_value_addr", "bits"), ("borrow_bits_are_value_addr", "bits"), ("one_word", "width"),
                       ("dyn_two_words", "width"), ("two_words", "width"), ("thin_one_word", "width"), ("thin_as_ptr_is_block", "heap"),
                       ("refcnt_as_ptr_is_value_addr", "heap"), ("pointer_fmt_is_block", "heap"), ("thin_refcnt_as_ptr_is_block", "heap"),
                       ("thin_pointer_fmt_is_block", "heap"), ("into_thin_refuses_longer", "thin"), ("into_thin_refuses_shorter", "thin"),
                       ("same_value_addr", "union"), ("variant_ok", "union"), ("count_is_two", "union"), ("tag_bit_free", "union")):
            if k in mm and mm[k] is not True:
                bad(cat, "%s is false" % k)
        for k in ("offset_heap", "borrow_heap"):
            if k in mm and mm[k] != 0:
                bad("heap", "%s: a handle rebuilt from the value address starts %s bytes off the block" % (k, mm[k]))
    res["evaluations"] = len(recs)
    res["traces"] = len(recs)
    res["nontrivial"] = len({(x["family"], str(x.get("h")), str(x.get("t")), str(x.get("a")), str(x.get("b")), x.get("n"), x.get("ctor"), x.get("path"))
                             for x in recs if x["family"] != "sized" or x["t"][1] > 8 or x["t"][0] == 0 or x["t"][0] % 8})
    res["rule"] = ("TLC checks Layout.tla's invariants on every (header shape, element shape, length) of the matrix; the real crate runs every "
                   "(shape, constructor, release path) of a sub-lattice and each record is compared with the table TLC evaluates; "
                   "non-trivial = not a sized word-multiple payload with alignment <= 8")
    res["samples"] = [recs[len(recs) // 3], recs[2 * len(recs) // 3]]
    res["detail"]["table_rows"] = len(cases)
    REL = {"C05": {"size", "frees", "layout", "alloc", "align", "panicked", "contents"},
           "C11": {"addr", "heap", "bits", "width", "panicked", "thin", "count", "contents", "layout", "frees"},
           "C12": {"union", "size", "layout", "frees", "panicked", "addr", "heap", "width"},
           "C01": {"frees", "layout", "count", "panicked", "contents", "heap"},
           "C06": {"contents", "panicked", "frees"},
           "C08": {"count"},
           "C09": {"frees", "layout", "contents", "panicked"},
           "C15": {"size", "frees", "layout", "contents", "panicked"},
           "C10": {"thin", "addr", "heap", "size", "layout", "frees", "panicked", "contents"}}[prop]
    seen = set()
    for cat, key, msg, x in errs:
        if cat not in REL:
            continue
        if prop == "C12" and x["family"] != "union":
            continue
        if prop == "C08" and x["family"] != "arcswap":
            continue
        if prop == "C09" and x.get("path") not in ("into_inner", "try_unwrap"):
            continue
        if prop == "C15" and x.get("ctor") not in ("new_uninit", "arc_new_uninit", "uninit", "new_uninit_slice"):
            continue
        if prop == "C10" and not (x["family"] == "hs" and x.get("ctor", "").startswith(("thin", "fat_into"))):
            continue
        # C11: what a pointer round trip recovers (same contents, same block released once with its layout)
        if prop == "C11" and cat in ("panicked", "contents", "layout", "frees") and not any(s in x.get("path", "") for s in ("raw", "offset", "refcnt", "dyn", "borrow", "swap")):
            continue
        k2 = (cat, key)
        if k2 in seen:
            continue
        seen.add(k2)
        res["violations"].append({"stage": name, "key": "matrix:%s:%s" % (cat, key), "errors": [msg], "record": x})
    return res


def replay_layout(prop, v):
    r = layout_stage(prop, "quick", "replay")
    errs = []
    for x in r["violations"]:
        if x["key"] == v.get("key"):
            errs += x["errors"]
    if not errs:
        for x in r["violations"][:3]:
            errs += x["errors"]
    return ["[tlc] " + e for e in errs]


def widths_stage(prop, tier, name):
    """C11 / C12: every handle is one pointer wide (two for slices / trait objects) and leaves the null niche to Option,
    in a build without debug assertions and in one with them. The expected widths are Layout.tla's HandleBytes."""
    wd = workdir(prop)
    stage_spec(wd, ["Layout.tla"])
    res = {"name": name, "states": 0, "transitions": 0, "evaluations": 0, "nontrivial": 0, "traces": 0, "samples": [],
           "violations": [], "notes": [], "exhaustive": True, "detail": {}}
    mod = ["---- MODULE MC_Widths ----", "EXTENDS Layout, Json", 'ASSUME PrintT(<<"WIDTHS", ToJson(HandleBytes)>>)', "===="]
    with open(os.path.join(wd, "MC_Widths.tla"), "w") as f:
        f.write("\n".join(mod) + "\n")
    cfg = "SPECIFICATION Spec\nCONSTANTS\n  Aligns = {1}\n  MaxSize = 1\n  MaxLen = 0\n  MaxIsize = 100000000\nCHECK_DEADLOCK FALSE\n"
    out, st = run_tlc(wd, "MC_Widths.tla", cfg, "widths", workers=1, timeout=600, java_opts=["-Xmx2g"])
    want = None
    for line in open(out, errors="replace"):
        if line.startswith('<<"WIDTHS"'):
            want = json.loads(line.rstrip()[len('<<"WIDTHS", "'):-len('">>')].replace('\\"', '"'))
    if want is None:
        raise ToolError("TLC did not print the handle widths: %s" % st)
    res["states"], res["transitions"], res["tlc"] = st["distinct"], st["generated"], st
    n = 0
    for cfgname, what in (("a", "release profile"), ("d", "debug assertions and overflow checks on")):
        exe = build_harness(cfgname)
        outp = os.path.join(wd, "widths_%s.json" % cfgname)
        r = subprocess.run([exe, "widths", outp], cwd=wd, stdout=subprocess.PIPE, stderr=subprocess.STDOUT, text=True, timeout=120)
        if r.returncode != 0:
            raise ToolError("tvh widths failed: %s" % r.stdout[-300:])
        for row in json.load(open(outp)):
            if "fact" in row:
                continue
            n += 1
            w = want[row["kind"]]
            if prop == "C12" and row["kind"] != "ArcUnion":
                continue
            if row["size"] != w or row["option"] != w or row["stride"] != w:
                res["violations"].append({"stage": name, "key": "width:%s:%s" % (row["kind"], cfgname), "row": row, "cfg": cfgname,
                                          "errors": ["[width] %s<%s> (%s): the handle is %d bytes, Option of it %d, array stride %d; the specification says %d for all three"
                                                     % (row["kind"], row["shape"], what, row["size"], row["option"], row["stride"], w)]})
    seen, uniq = set(), []
    for v in res["violations"]:
        if v["key"] not in seen:
            seen.add(v["key"])
            uniq.append(v)
    res["violations"] = uniq
    res["evaluations"] = res["traces"] = res["nontrivial"] = n
    res["rule"] = "every handle kind x six payload shapes x two build profiles"
    return res


def replay_widths(prop, v):
    r = widths_stage(prop, "quick", "replay")
    errs = []
    for x in r["violations"]:
        errs += x["errors"]
    return ["[tlc] " + e for e in errs]


def surface_stage(prop, tier, name):
    """which handle types can be duplicated: Triomphe.tla's CloneKinds / CopyKinds against the trait impls the crate has
    (a UniqueArc that could be cloned would be a second 'unique' handle that passed no gate)"""
    wd = workdir(prop)
    stage_spec(wd, ["Triomphe.tla"])
    res = {"name": name, "states": 0, "transitions": 0, "evaluations": 0, "nontrivial": 0, "traces": 0, "samples": [],
           "violations": [], "notes": [], "exhaustive": True, "detail": {}}
    mod = ["---- MODULE MC_Surface ----", "EXTENDS Triomphe, Json", 'ASSUME PrintT(<<"SURFACE", ToJson([clone |-> CloneKinds, copy |-> CopyKinds, unqlends |-> BorrowApis("Unq")])>>)', "===="]
    with open(os.path.join(wd, "MC_Surface.tla"), "w") as f:
        f.write("\n".join(mod) + "\n")
    cfg = ("SPECIFICATION Spec\nCONSTANTS\n  NSlots = 1\n  NBlocks = 1\n  MaxFrames = 0\n  CountBits = 8\n  KeepHist = FALSE\n"
           '  Hows = {"new"}\n  Ops = {}\nCHECK_DEADLOCK FALSE\n')
    out, st = run_tlc(wd, "MC_Surface.tla", cfg, "surface", workers=1, timeout=600, java_opts=["-Xmx2g"])
    want = None
    for line in open(out, errors="replace"):
        if line.startswith('<<"SURFACE"'):
            want = json.loads(line.rstrip()[len('<<"SURFACE", "'):-len('">>')].replace('\\"', '"'))
    if want is None:
        raise ToolError("TLC did not print the duplicable kinds: %s" % st)
    res["states"], res["transitions"], res["tlc"] = st["distinct"], st["generated"], st
    clone_kinds = set(want["clone"]) | set(want["copy"]) | {"Thin"}
    exe = build_harness("a")
    outp = os.path.join(wd, "surface.json")
    r = subprocess.run([exe, "widths", outp], cwd=wd, stdout=subprocess.PIPE, stderr=subprocess.STDOUT, text=True, timeout=120)
    if r.returncode != 0:
        raise ToolError("tvh widths failed: %s" % r.stdout[-300:])
    n = 0
    rows = json.load(open(outp))
    # a UniqueArc that can be cloned into an independent allocation is no second owner: only a clone that shares counts
    harmless = {r["kind"] for r in rows if r.get("fact") == "clone_shares_allocation" and r.get("shares") is False}
    for row in rows:
        if row.get("fact") != "duplicable":
            continue
        n += 1
        k = row["kind"]
        base = "Unq" if k.startswith("Unq") else k
        exp_clone, exp_copy = base in clone_kinds, base in set(want["copy"])
        if base == "Unq" and row["clone"] and not row["copy"] and (k in harmless or (k == "UnqDyn" and "Unq" in harmless)):
            continue
        if row["clone"] != exp_clone or row["copy"] != exp_copy:
            res["violations"].append({"stage": name, "key": "surface:%s" % k, "row": row,
                                      "errors": ["[kind] handle type %s: Clone = %s, Copy = %s; the specification has Clone = %s, Copy = %s "
                                                 "(a handle that can be duplicated without passing through the count is one more owner nobody counted)"
                                                 % (k, row["clone"], row["copy"], exp_clone, exp_copy)]})
    for row in rows:
        if row.get("fact") != "lends":
            continue
        n += 1
        if row["present"] and row["api"] not in set(want.get("unqlends", [])):
            res["violations"].append({"stage": name, "key": "surface:Unq:%s" % row["api"], "row": row,
                                      "errors": ["[kind] UniqueArc answers `%s`: a unique handle lends no ArcBorrow and mints no Arc while it exists "
                                                 "(BorrowApis(\"Unq\") = {} in the specification); through it safe code gives the 'unique' handle a co-owner" % row["api"]]})
    res["evaluations"] = res["traces"] = res["nontrivial"] = n
    res["rule"] = "every handle type: has it a Clone / Copy impl; does a UniqueArc answer one of the lending / minting calls of the other kinds"
    return res


def gates_stage(prop, tier, name, gates=None):
    """the uniqueness gates at preset counts (1, 2, 3, 2^8 + 1, 2^16 + 1, 2^32 - 1, 2^32, 2^32 + 1, 2^33 + 1, 3 * 2^32 + 1, 2^48 + 1,
    isize::MAX - 1, isize::MAX): Triomphe.tla's GateOpen(rc) == rc = 1 against what the crate's gates answer"""
    wd = workdir(prop)
    stage_spec(wd, ["Triomphe.tla"])
    res = {"name": name, "states": 0, "transitions": 0, "evaluations": 0, "nontrivial": 0, "traces": 0, "samples": [],
           "violations": [], "notes": [], "exhaustive": True, "detail": {}}
    small = [1, 2, 3, 257, 65537, 2147483647]
    mod = ["---- MODULE MC_Gates ----", "EXTENDS Triomphe, Json",
           'ASSUME PrintT(<<"GATES", ToJson({[c |-> c, open |-> GateOpen(c)] : c \\in {%s}})>>)' % ", ".join(map(str, small)), "===="]
    with open(os.path.join(wd, "MC_Gates.tla"), "w") as f:
        f.write("\n".join(mod) + "\n")
    cfg = ("SPECIFICATION Spec\nCONSTANTS\n  NSlots = 1\n  NBlocks = 1\n  MaxFrames = 0\n  CountBits = 8\n  KeepHist = FALSE\n"
           '  Hows = {"new"}\n  Ops = {}\nCHECK_DEADLOCK FALSE\n')
    out, st = run_tlc(wd, "MC_Gates.tla", cfg, name, workers=1, timeout=600, java_opts=["-Xmx2g"])
    want = None
    for line in open(out, errors="replace"):
        if line.startswith('<<"GATES"'):
            want = json.loads(line.rstrip()[len('<<"GATES", "'):-len('">>')].replace('\\"', '"'))
    if want is None:
        raise ToolError("TLC did not print the gate table: %s" % st)
    res["states"], res["transitions"], res["tlc"] = st["distinct"], st["generated"], st
    table = {r["c"]: r["open"] for r in want}
    exe = build_harness("a")
    outp = os.path.join(wd, name + ".gates.json")
    r = subprocess.run([exe, "gates", outp], cwd=wd, stdout=subprocess.PIPE, stderr=subprocess.STDOUT, text=True, timeout=300)
    if r.returncode != 0 or not os.path.exists(outp):
        res["violations"].append({"stage": name, "key": "gates:crash", "errors": ["[crash] the gate run died (exit %s): %s" % (r.returncode, r.stdout[-300:])]})
        return res
    n = 0
    for row in json.load(open(outp)):
        if gates and not any(g in row["gate"] for g in gates):
            continue
        n += 1
        c = int(row["count"], 16)
        # beyond TLC's integers the same definition applies: the count is not 1, the gate is shut
        exp = table.get(c, c == 1)
        if row["granted"] != exp:
            res["violations"].append({"stage": name, "key": "gates:%s:%s" % (row["gate"], row["count"]), "row": row,
                                      "errors": ["[verdict] %s with a count of %s: the gate %s; the specification opens it iff the count is exactly 1 (GateOpen)"
                                                 % (row["gate"], row["count"], "opened" if row["granted"] else "stayed shut")]})
    res["evaluations"] = res["traces"] = n
    res["nontrivial"] = n
    res["rule"] = "every uniqueness gate at every preset count"
    return res
