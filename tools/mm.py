"""ArcMM stages: protocol extraction from the running code -> TLC on the micro-step memory-model spec."""
import json, os, subprocess, re, shutil, time
from vlib import *


class Inexpressible(ToolError):
    pass


ATOMIC = ("rmw", "load", "store", "fence")


def extract(prop):
    wd = workdir(prop)
    exe = build_harness("a")
    out = os.path.join(wd, "extract.json")
    if os.path.exists(out):
        os.remove(out)
    r = subprocess.run([exe, "extract", out], cwd=wd, stdout=subprocess.PIPE, stderr=subprocess.STDOUT, text=True, timeout=300)
    if r.returncode != 0 or not os.path.exists(out):
        raise CrashInExtraction("protocol extraction crashed (exit %s): %s" % (r.returncode, r.stdout[-500:]))
    return json.load(open(out))


class CrashInExtraction(Exception):
    pass


def instr(e, sets):
    k, d, o, _seen = e
    if k == "rmw":
        if d not in (1, -1):
            raise Inexpressible("count changed by %s in one step" % d)
        return 'I("rmw", %d, "%s", %s)' % (1 if d == 1 else 0, o, "TRUE" if sets else "FALSE")
    if k == "load":
        return 'I("load", 0, "%s", %s)' % (o, "TRUE" if sets else "FALSE")
    if k == "fence":
        return 'I("fence", 0, "%s", FALSE)' % o
    if k == "destroy":
        return "IDestroy"
    if k == "free":
        return "IFree"
    raise Inexpressible("operation %s on the count is outside the model's straight-line language" % k)


def prog(events, decide=True, idx=None):
    """events -> TLA+ sequence; `idx` is the deciding event (default: the first rmw, else the first load)"""
    if decide and idx is None:
        for i, e in enumerate(events):
            if e[0] == "rmw":
                idx = i
                break
        if idx is None:
            for i, e in enumerate(events):
                if e[0] == "load":
                    idx = i
                    break
    return "<<" + ", ".join(instr(e, i == idx) for i, e in enumerate(events)) + ">>"


def shape(e):
    return tuple((x[0], x[1], x[2]) for x in e)


def protocol(entries):
    """distinct protocol programs observed, plus a human-readable summary. Raises Inexpressible."""
    incs, decs, uniqs = {}, {}, {"get_mut": {}, "try_unwrap": {}, "make_mut": {}, "unwrap_or_clone": {}}
    problems = []
    lastseqs = set()
    pending = []
    by = {}
    for en in entries:
        by.setdefault((en["group"], en["name"]), {})[en["state"]] = en["events"]
    for (g, name), st in by.items():
        for evs in st.values():
            for e in evs:
                if e[0] in ("foreign", "swap", "cas", "store", "baddrop"):
                    raise Inexpressible("%s performs '%s' on a count: outside the model's language (a straight line of "
                                        "fetch_add/fetch_sub/load/fence around one branch on the value read)" % (name, e[0]))
        if g == "inc":
            evs = [e for e in st["-"] if e[0] in ATOMIC]
            rm = [e for e in evs if e[0] == "rmw"]
            # a straight line of +1 / -1 steps that adds one owner in total (e.g. clone, clone, release of a
            # temporary): executed as it is; the model has no destruction branch inside it, so a decrement in it
            # that turns out to be the last one shows up as a value never destroyed (ExactlyOnce)
            if not rm or any(e[1] not in (1, -1) for e in rm) or sum(e[1] for e in rm) != 1:
                raise Inexpressible("%s does not add exactly one to the count with a straight line of +1/-1 read-modify-writes: %s" % (name, evs))
            incs.setdefault(prog(evs, decide=len(rm) == 1), []).append(name)
        elif g == "dec":
            sh = [e for e in st["shared"] if e[0] in ATOMIC]
            if any(e[0] in ("destroy", "free") for e in st["shared"]):
                problems.append("%s destroys or frees although another owner remains" % name)
            la = [e for e in st["last"] if e[0] in ATOMIC + ("destroy", "free")]
            if shape(la[:len(sh)]) != shape(sh):
                raise Inexpressible("%s: the release runs different count operations depending on the state before "
                                    "the first of them: %s vs %s" % (name, sh, la))
            rm = [e for e in sh if e[0] == "rmw"]
            if len(rm) != 1 or rm[0][1] != -1:
                raise Inexpressible("%s does not subtract exactly one with one read-modify-write: %s" % (name, sh))
            rest = la[len(sh):]
            if not any(e[0] == "free" for e in rest):
                problems.append("%s: the last owner does not free the block" % name)
            # the deciding event: the last one in the common prefix that saw different values in the two runs
            didx = None
            for i in range(len(sh)):
                if sh[i][0] in ("rmw", "load") and sh[i][3] != la[i][3]:
                    didx = i
            decs.setdefault("<<%s, %s>>" % (prog(sh, idx=didx), prog(rest, decide=False)), []).append(name)
            lastseqs.add(shape(la))
        elif g.startswith("uniq:"):
            api = g.split(":")[1]
            if api in ("get_mut", "try_unwrap") and any(e[0] == "granted" for e in st.get("shared", [])):
                problems.append("%s grants exclusive access (or hands the value out) although another owner exists" % name)
                continue
            un = st["unique"]
            cut = next((i for i, e in enumerate(un) if e[0] not in ATOMIC), len(un))
            up = un[:cut]
            sp = st["shared"]
            cut2 = next((i for i, e in enumerate(sp) if e[0] not in ATOMIC), len(sp))
            # the gate is the common prefix of the two runs up to the last event that saw different values (what follows
            # belongs to the branches: the grant, or the clone and the release of the old value)
            sa = sp[:cut2]
            n = 0
            while n < min(len(up), len(sa)) and shape([up[n]]) == shape([sa[n]]):
                n += 1
            if n == 0:
                raise Inexpressible("%s decides uniqueness without reading the count (or starts differently in the unique and the "
                                    "shared case): %s vs %s" % (name, up, sa))
            didx = None
            for i in range(n):
                if up[i][0] in ("rmw", "load") and up[i][3] != sa[i][3]:
                    didx = i
            if didx is None:
                raise Inexpressible("%s: no count operation of the common prefix sees the difference between the unique and the "
                                    "shared case: %s vs %s" % (name, up, sa))
            uniqs[api].setdefault(prog(up[:didx + 1], idx=didx), []).append(name)
            if "shared_then_last" in st:
                tail = st["shared_then_last"]
                if any(e[0] == "cloneval" for e in tail):
                    k = max(i for i, e in enumerate(tail) if e[0] == "cloneval")
                    pending.append((name, [e for e in tail[k + 1:] if e[0] in ATOMIC + ("destroy", "free")]))
    # the release a uniqueness-gated call performs when it turned out to be the last owner is one more
    # "give up one owner" program of the model: TLC decides whether it is a safe one
    for name, tail in pending:
        i = next((k for k, e in enumerate(tail) if e[0] == "rmw"), None)
        if i is None:
            problems.append("%s: releases its handle without touching the count" % name)
            continue
        decs.setdefault("<<%s, %s>>" % (prog(tail[:i + 1]), prog(tail[i + 1:], decide=False)), []).append(name + " (last owner after the clone)")
    return incs, decs, uniqs, problems


def gen_module(wd, incs, decs, uniqs):
    def setof(d):
        return "{" + ", ".join(sorted(d.keys())) + "}"
    lines = ["---- MODULE MC_ArcMM ----", "EXTENDS ArcMM",
             "c_Inc == " + setof(incs),
             "c_Dec == " + setof(decs),
             "c_Uq == [a \\in UniqApis |-> CASE " +
             " [] ".join('a = "%s" -> %s' % (api, setof(p) if p else "{<<I(\"load\", 0, \"acq\", TRUE)>>}") for api, p in sorted(uniqs.items())) + "]",
             "===="]
    with open(os.path.join(wd, "MC_ArcMM.tla"), "w") as f:
        f.write("\n".join(lines) + "\n")


def mm_cfg(ops, nt, maxops, maxinit, handoff):
    return "\n".join([
        "SPECIFICATION Spec", "CONSTANTS",
        "  NT = %d" % nt, "  MaxOps = %d" % maxops, "  MaxInit = %d" % maxinit,
        "  Handoff = %s" % ("TRUE" if handoff else "FALSE"),
        "  Ops = %s" % tla_set(ops),
        "  IncProgs <- c_Inc", "  DecProgs <- c_Dec", "  UniqProgs <- c_Uq",
        "INVARIANT NoErr", "INVARIANT AtMostOnce", "INVARIANT FreedOnlyWhenNoHandles", "INVARIANT ExactlyOnce",
        "INVARIANT CountIsHandles", "CHECK_DEADLOCK FALSE", ""])


def tlc_trace(out):
    """the counterexample as text (states after the 'behavior up to this point' line)"""
    txt = open(out, errors="replace").read()
    i = txt.find("Error: The behavior up to this point is:")
    if i < 0:
        return txt[-3000:]
    j = txt.find("states generated", i)
    return txt[i:j if j > 0 else None]


def last_err(trace):
    m = re.findall(r'/\\ err = "([^"]*)"', trace)
    return m[-1] if m else "?"


def mm_stage(prop, tier, name, configs, workers=12):
    """configs: list of (cfgname, ops, nt, maxops, maxinit, handoff)"""
    wd = workdir(prop)
    res = {"name": name, "states": 0, "transitions": 0, "evaluations": 0, "nontrivial": 0, "traces": 0,
           "samples": [], "violations": [], "notes": [], "exhaustive": True, "detail": {}}
    try:
        entries = extract(prop)
    except CrashInExtraction as e:
        res["violations"].append({"stage": name, "key": "crash-in-extraction",
                                  "errors": ["[crash] %s" % e]})
        return res
    try:
        incs, decs, uniqs, problems = protocol(entries)
    except Inexpressible as e:
        # the exhaustive stage cannot express this protocol shape: not a verdict. The recorded-trace stage
        # still judges the real executions; if it finds nothing the check ends with exit 2.
        res["tool_error"] = "protocol outside ArcMM's straight-line language: %s" % e
        res["exhaustive"] = False
        return res
    res["detail"]["protocol"] = {"inc": incs, "dec": decs, "uniq": uniqs}
    res["detail"]["entry_points"] = len(entries)
    for p in problems:
        res["violations"].append({"stage": name, "key": "protocol:" + p, "errors": ["[protocol] " + p], "entries": entries})
    stage_spec(wd, ["ArcMM.tla"])
    gen_module(wd, incs, decs, uniqs)
    res["samples"].append({"extracted_protocol": {"IncProgs": sorted(incs), "DecProgs": sorted(decs),
                                                  "UniqProgs": {k: sorted(v) for k, v in uniqs.items()}}})
    for (cname, ops, nt, maxops, maxinit, handoff) in configs:
        # (a protocol with many more steps per call than the crate's can make the model explode: the quick tier gives up
        # after 20 minutes -- exit 2, not a verdict -- instead of filling the disk)
        out, st = run_tlc(wd, "MC_ArcMM.tla", mm_cfg(ops, nt, maxops, maxinit, handoff), cname, workers=workers,
                          timeout=1200 if tier == "quick" else 5400, java_opts=["-Xmx12g"])
        res["states"] += st["distinct"]
        res["transitions"] += st["generated"]
        res["evaluations"] += 1
        res["nontrivial"] += 1
        res["detail"][cname] = {k: st[k] for k in ("generated", "distinct", "depth", "wall_s")}
        res.setdefault("tlc", st)
        if st["ok"]:
            continue
        txt = open(out, errors="replace").read()
        minv = re.search(r"Invariant (\w+) is violated", txt)
        if minv:
            tr = tlc_trace(out)
            e = last_err(tr)
            if e == "none":
                e = {"ExactlyOnce": "every handle is gone and every thread is done, but the value was not destroyed / moved out exactly once or the memory not released",
                     "AtMostOnce": "the value is destroyed or moved out more than once",
                     "FreedOnlyWhenNoHandles": "the memory is released while a handle still exists",
                     "CountIsHandles": "with no call in flight the count differs from the number of handles"}.get(minv.group(1), minv.group(1))
            res["violations"].append({
                "stage": name, "config": cname, "ops": ops, "nt": nt, "maxops": maxops, "maxinit": maxinit, "handoff": handoff,
                "key": "schedule:%s:%s" % (cname, e),
                "errors": ["[schedule] under the extracted protocol TLC found a schedule / load outcome that ends in: %s" % e],
                "protocol": {"inc": incs, "dec": decs, "uniq": uniqs},
                "tlc_counterexample": tr[-12000:]})
        else:
            raise ToolError("TLC failed on %s: %s (see %s)" % (cname, st["error"], out))
    return res


def replay_mm(prop, v):
    if "trace" in v and os.path.exists(v["trace"]):
        # the recorded execution itself is the counterexample: judge the stored trace again
        st, viol = judge_trace(workdir(prop), v["trace"], "replay_trace")
        return [] if viol is None else ["[tlc] " + e for e in viol["errors"]]
    if "ops" not in v:
        return ["[tlc] " + e for e in v.get("errors", [])]
    r = mm_stage(prop, "quick", "replay", [(v["config"], v["ops"], v["nt"], v["maxops"], v["maxinit"], v["handoff"])])
    errs = []
    for x in r["violations"]:
        errs += ["[tlc] " + e for e in x["errors"]]
    return errs


# ------------------------------------------------------------------ implementation -> specification

TRACE_CFG = "\n".join([
    "SPECIFICATION TraceSpec", "CONSTANTS", "  NT = 5", "  MaxOps = 0", "  MaxInit = 0", "  Handoff = FALSE", "  Ops = {}",
    "  IncProgs <- c_E", "  DecProgs <- c_E", "  UniqProgs <- c_U",
    "INVARIANT NoErr", "INVARIANT AtMostOnce", "INVARIANT FreedOnlyWhenNoHandles", "INVARIANT CountIsHandles",
    "INVARIANT TraceEnd", "POSTCONDITION TraceAccepted", "CHECK_DEADLOCK FALSE", ""])
MC_TRACE = "---- MODULE MC_Trace ----\nEXTENDS ArcMMTrace\nc_E == {}\nc_U == [a \\in UniqApis |-> {}]\n====\n"
TRACE_JAVA = ["-Xmx4g", "-Xss1g", "-Dtlc2.tool.queue.IStateQueue=StateDeque"]


def judge_trace(wd, nd, name):
    """TLC judges one NDJSON file of recorded runs; returns (stats, None) or (stats, violation dict without replay info)"""
    stage_spec(wd, ["ArcMM.tla", "ArcMMTrace.tla"])
    with open(os.path.join(wd, "MC_Trace.tla"), "w") as f:
        f.write(MC_TRACE)
    out, st = run_tlc(wd, "MC_Trace.tla", TRACE_CFG, name, workers=1, timeout=3000, java_opts=TRACE_JAVA, env={"TRACE": nd})
    txt = open(out, errors="replace").read()
    if st["ok"] and "TRACE-REJECTED" not in txt:
        return st, None
    if "is violated" in txt:
        tr = tlc_trace(out)
        e = last_err(tr)
        inv = re.search(r"Invariant (\w+) is violated", txt)
        iname = inv.group(1) if inv else "?"
        return st, {"key": "trace-violates:%s:%s" % (iname, e),
                    "errors": ["[schedule] a recorded concurrent execution violates %s under the memory model: %s" % (iname, e)],
                    "tlc_counterexample": tr[-6000:]}
    if "TRACE-REJECTED" in txt:
        m = re.search(r"TRACE-REJECTED at event\", (\d+), (.*?)>>", txt, re.S)
        what = "event %s %s" % (m.group(1), " ".join(m.group(2).split())) if m else "?"
        ek = re.search(r'e \|-> "(\w+)"', m.group(2)).group(1) if m and re.search(r'e \|-> "(\w+)"', m.group(2)) else "?"
        return st, {"key": "trace-rejected:" + ek,
                    "errors": ["[schedule] a recorded concurrent execution is not a behaviour of the specification: the model cannot follow %s" % what]}
    raise ToolError("TLC failed on the recorded trace: %s (see %s)" % (st["error"], out))


def trace_stage(prop, tier, name, seed, runs, nops):
    """record real concurrent executions (2-4 threads + a lending main thread, mixed handle kinds, seeded programs,
    two thirds under a seeded cooperative scheduler) and let TLC judge them against ArcMMTrace: count arithmetic,
    happens-before races recomputed from the logged orderings, ArcMM's safety invariants at every event, clean end"""
    wd = workdir(prop)
    exe = build_harness("a")
    res = {"name": name, "states": 0, "transitions": 0, "evaluations": 0, "nontrivial": 0, "traces": 0, "samples": [],
           "violations": [], "notes": [], "exhaustive": False, "detail": {}}
    batches = max(1, runs // 100)
    per = runs // batches
    for bi in range(batches):
        s0 = seed * 100003 + bi * per
        nd = os.path.join(wd, "%s_%d.ndjson" % (name, bi))
        if os.path.exists(nd):
            os.remove(nd)
        r = subprocess.run([exe, "threads", str(s0), str(per), str(nops), nd], cwd=wd, stdout=subprocess.PIPE, stderr=subprocess.STDOUT,
                           text=True, timeout=1800)
        if r.returncode != 0:
            if r.returncode == 2:
                raise ToolError("threaded runner failed: %s" % r.stdout[-300:])
            res["violations"].append({"stage": name, "key": "crash-in-threads",
                                      "errors": ["[crash] the process died (exit %s) during concurrent runs starting at seed %d: %s" % (r.returncode, s0, r.stdout[-200:])],
                                      "seed": s0, "runs": per, "nops": nops})
            continue
        nlines = sum(1 for _ in open(nd))
        st, v = judge_trace(wd, nd, "%s_%d" % (name, bi))
        res["states"] += st["distinct"]
        res["transitions"] += st["generated"]
        res["evaluations"] += nlines
        res["traces"] += per
        res["nontrivial"] += per
        res.setdefault("tlc", st)
        if v is None:
            if bi == 0:
                res["samples"] = [[json.loads(l) for l in open(nd).read().splitlines()[:14]]]
            continue
        keep = next_replay_path(prop, tier, name + "-trace").replace(".json", ".ndjson")
        shutil.copy(nd, keep)
        v.update({"stage": name, "trace": keep, "seed": s0, "runs": per, "nops": nops})
        res["violations"].append(v)
    res["rule"] = ("each trace = one recorded run of 2-4 OS threads x seeded random programs over Arc/OffsetArc/ArcUnion handles to one value; "
                   "distinct by seed; every event of every run is validated by TLC")
    return res


def inject_stage(prop, tier, name, cfg="a"):
    """deterministic preemption injection: for every (handle kind x victim call x number of other owners x adversary
    action x injection point(s)) the adversary runs, as a second thread, right before the victim call's k-th count
    operation; the resulting two-thread executions are judged by ArcMMTrace like the recorded concurrent runs"""
    wd = workdir(prop)
    exe = build_harness(cfg)
    res = {"name": name, "states": 0, "transitions": 0, "evaluations": 0, "nontrivial": 0, "traces": 0, "samples": [],
           "violations": [], "notes": [], "exhaustive": True, "detail": {}}
    nd = os.path.join(wd, name + ".ndjson")
    if os.path.exists(nd):
        os.remove(nd)
    r = subprocess.run([exe, "inject", nd], cwd=wd, stdout=subprocess.PIPE, stderr=subprocess.STDOUT, text=True, timeout=1800)
    if r.returncode != 0:
        cur = "?"
        try:
            cur = open(nd + ".progress").read().strip() or "?"
        except Exception:
            pass
        res["violations"].append({"stage": name, "key": "crash-in-injection",
                                  "errors": ["[crash] the process died (exit %s%s) in the injected scenario: %s" % (r.returncode, ": an access to a released block or past the end of a block" if r.returncode == -11 else "", cur)]})
        return res
    lines = open(nd).read().splitlines()
    nscen = sum(1 for l in lines if '"init"' in l)
    # judge; on a violation report the scenario, cut it out and continue, so that every scenario is judged
    rest = lines
    for attempt in range(8):
        cur = os.path.join(wd, "%s_%d.ndjson" % (name, attempt))
        with open(cur, "w") as f:
            f.write("\n".join(rest) + "\n")
        st, v = judge_trace(wd, cur, "%s_%d" % (name, attempt))
        res["states"] += st["distinct"]
        res["transitions"] += st["generated"]
        res.setdefault("tlc", st)
        if v is None:
            break
        # which scenario: the last init record at or before the failing position
        txt = open(os.path.join(wd, "%s_%d.out" % (name, attempt)), errors="replace").read()
        ls = re.findall(r"^/\\ l = (\d+)", txt, re.M)
        m = re.search(r"TRACE-REJECTED at event\", (\d+),", txt)
        pos = int(m.group(1)) if m else (int(ls[-1]) if ls else len(rest))
        start = max(i for i in range(min(pos, len(rest))) if '"init"' in rest[i])
        end = next((i for i in range(start + 1, len(rest)) if '"init"' in rest[i]), len(rest))
        scen = json.loads(rest[start]).get("scenario", "?")
        keep = next_replay_path(prop, tier, name + "-scenario").replace(".json", ".ndjson")
        with open(keep, "w") as f:
            f.write("\n".join(rest[start:end]) + "\n")
        v.update({"stage": name, "trace": keep, "scenario": scen})
        v["key"] = "inject:%s:%s" % (scen.split(" adversary")[0], v["key"])
        v["errors"] = [v["errors"][0] + " -- scenario: " + scen]
        res["violations"].append(v)
        rest = rest[:start] + rest[end:]
        if not any('"init"' in l for l in rest):
            break
    # one violation per (kind, call) is enough
    seen, uniq = set(), []
    for v in res["violations"]:
        k = v["key"].split(" others")[0]
        if k not in seen:
            seen.add(k)
            uniq.append(v)
    res["violations"] = uniq
    res["evaluations"] = len(lines)
    res["traces"] = nscen
    res["nontrivial"] = nscen
    res["samples"] = [[json.loads(l) for l in lines[:12]]]
    res["rule"] = ("one two-thread execution per (handle kind, victim call, other owners, adversary action, injection point(s)); all distinct; "
                   "all non-trivial (an adversary call runs between two count operations of the victim call)")
    return res
