"""C14 stage: TLC checks Compare.tla's laws over the exhaustive small domain and exports the reference
table; the real handle kinds are evaluated on every pair and compared with it."""
import json, os, subprocess
from vlib import *


def cmp_cfg(carrier, maxlen, inv, export=True):
    return "\n".join(["SPECIFICATION Spec", "CONSTANTS", '  Carrier = "%s"' % carrier, "  MaxLen = %d" % maxlen, "  RecDelta = {0, 1}",
                      "INVARIANT %s" % inv, ("INVARIANT Export" if export else ""), "CHECK_DEADLOCK FALSE", ""])


def compare_stage(prop, tier, name, only=None):
    wd = workdir(prop)
    stage_spec(wd, ["Compare.tla", "MC_Compare.tla"])
    exe = build_harness("a")
    res = {"name": name, "states": 0, "transitions": 0, "evaluations": 0, "nontrivial": 0, "traces": 0, "samples": [],
           "violations": [], "notes": [], "exhaustive": True, "detail": {}}
    maxlen = 3 if tier == "thorough" else 2
    outs = {}
    for car in ("total", "partial", "refl"):
        out, st = run_tlc(wd, "MC_Compare.tla", cmp_cfg(car, maxlen, "Laws"), "cmp_" + car, workers=4, timeout=3000)
        if not st["ok"]:
            raise ToolError("Compare.tla's laws do not hold on the reference layer (%s): %s" % (car, st["error"]))
        res["states"] += st["distinct"]
        res["transitions"] += st["generated"]
        res.setdefault("tlc", st)
        outs[car] = out
    # design level: the impls as written (kept as a demonstration; the verdict comes from the real code below)
    out, st = run_tlc(wd, "MC_Compare.tla", cmp_cfg("total", 1, "ImplCoherentAsWritten", export=False), "cmp_aswritten", workers=1)
    res["detail"]["spec_as_written_incoherent"] = not st["ok"]
    summ = os.path.join(wd, name + ".compare.json")
    r = subprocess.run([exe, "compare", outs["total"], outs["partial"], outs["refl"], summ], cwd=wd, stdout=subprocess.PIPE,
                       stderr=subprocess.STDOUT, text=True, timeout=1800)
    if r.returncode != 0 or not os.path.exists(summ):
        res["violations"].append({"stage": name, "key": "crash-in-compare", "errors": ["[crash] the comparison run died (exit %s): %s" % (r.returncode, r.stdout[-300:])]})
        return res
    s = json.load(open(summ))
    res["evaluations"] = s["evaluations"]
    res["traces"] = s["evaluations"]
    res["nontrivial"] = s["evaluations"]
    res["samples"] = s["samples"][:3]
    res["rule"] = ("every ordered pair of values of the exhaustive small domain (header x slice up to the length bound x recorded length equal/unequal), "
                   "three carriers (total, partial with a NaN-like element, equality-only), each evaluated on the values and on every handle kind; "
                   "all pairs are distinct; non-trivial: all (each pair exercises eq/ne/partial_cmp/the four relational operators)")
    seen = {}
    for v in s["violations"]:
        seen.setdefault(v["key"], []).append(v["msg"])
    for k, msgs in seen.items():
        if only and not any(o in k for o in only):
            continue
        res["violations"].append({"stage": name, "key": k, "errors": ["[compare] %s -- e.g. %s" % (k, msgs[0])]})
    return res


def replay_compare(prop, v):
    r = compare_stage(prop, "quick", "replay")
    errs = []
    for x in r["violations"]:
        if x["key"] == v.get("key"):
            errs += x["errors"]
    return ["[tlc] " + e for e in errs]
