"""Shared machinery of /verif/check: harness build, TLC runs, replay, evidence, reporting."""
import json, os, re, subprocess, sys, time, shutil, hashlib

VERIF = os.path.dirname(os.path.dirname(os.path.abspath(__file__)))
SPEC = os.path.join(VERIF, "spec")
HARNESS = os.path.join(VERIF, "harness")
WORK = os.path.join(VERIF, "work")
REPLAYS = os.path.join(VERIF, "replays")
EVIDENCE = os.path.join(VERIF, "evidence")
TLA_CP = "/opt/veriftools/tla/tla2tools.jar:/opt/veriftools/tla/CommunityModules-deps.jar"


class ToolError(Exception):
    """the machinery failed (exit 2): never reported as a violation"""


def log(*a):
    print(*a, flush=True)


def sh(cmd, cwd=None, timeout=None, env=None, stdout=None):
    e = dict(os.environ)
    e.update({"CARGO_NET_OFFLINE": "true"})
    if env:
        e.update(env)
    return subprocess.run(cmd, cwd=cwd, timeout=timeout, env=e, stdout=stdout or subprocess.PIPE,
                          stderr=subprocess.STDOUT, text=True)


# ------------------------------------------------------------------ harness build

_built = {}


def build_harness(cfg="a"):
    """(re)build the harness against /repo's current working tree, hook on. cfg: a | b | p (a with payloads that have no drop glue) | d (a with debug assertions on)"""
    if cfg in _built:
        return _built[cfg]
    feats = {"a": ["--features", "cfg_a"], "b": ["--no-default-features", "--features", "cfg_b"],
             "p": ["--features", "cfg_a,plain_payloads"], "d": ["--features", "cfg_a"]}[cfg]
    tdir = os.path.join(HARNESS, "target", "cfg_" + cfg)
    t0 = time.time()
    env = None
    if cfg == "d":
        # the crate (and the harness) unoptimised, with debug assertions and overflow checks on, as `cargo build` / `cargo test` build it
        env = dict(os.environ, CARGO_PROFILE_RELEASE_DEBUG_ASSERTIONS="true", CARGO_PROFILE_RELEASE_OVERFLOW_CHECKS="true",
                   CARGO_PROFILE_RELEASE_OPT_LEVEL="0")
    r = sh(["cargo", "build", "--release", "--offline", "--target-dir", tdir] + feats, cwd=HARNESS, timeout=1200, env=env)
    if r.returncode != 0:
        sys.stdout.write(r.stdout[-6000:])
        raise ToolError("harness build failed (configuration %s): the tree under /repo does not compile with "
                        "the hook enabled, or the harness is broken" % cfg)
    exe = os.path.join(tdir, "release", "tvh")
    _built[cfg] = exe
    log("[build] harness cfg_%s ready in %.1fs" % (cfg, time.time() - t0))
    return exe


# ------------------------------------------------------------------ TLC

def workdir(prop):
    d = os.path.join(WORK, prop)
    os.makedirs(d, exist_ok=True)
    return d


def stage_spec(wd, modules):
    """copy the spec modules next to the generated cfg (TLC resolves modules relative to the root file)"""
    for m in modules:
        shutil.copy(os.path.join(SPEC, m), os.path.join(wd, m))


def tla_set(xs):
    return "{" + ", ".join('"%s"' % x for x in xs) + "}"


def run_tlc(wd, root, cfg_text, name, workers=1, timeout=1800, extra=None, java_opts=None, env=None):
    """run TLC on wd/root with the given cfg text; returns (stdout path, stats dict)"""
    cfg = os.path.join(wd, name + ".cfg")
    with open(cfg, "w") as f:
        f.write(cfg_text)
    out = os.path.join(wd, name + ".out")
    md = os.path.join(wd, "md_" + name)
    shutil.rmtree(md, ignore_errors=True)
    # TLC unpacks its standard modules into a fresh directory under java.io.tmpdir at every start: keep that out of /tmp
    jtmp = os.path.join(wd, "jtmp_" + name)
    shutil.rmtree(jtmp, ignore_errors=True)
    os.makedirs(jtmp, exist_ok=True)
    cmd = ["java", "-XX:+UseParallelGC", "-Djava.io.tmpdir=" + jtmp] + (java_opts or ["-Xmx8g"]) + ["-cp", TLA_CP, "tlc2.TLC",
           "-workers", str(workers), "-metadir", md, "-cleanup", "-noGenerateSpecTE",
           "-config", cfg] + (extra or []) + [os.path.join(wd, root)]
    t0 = time.time()
    with open(out, "w") as f:
        try:
            r = sh(cmd, cwd=wd, timeout=timeout, stdout=f, env=env)
        except subprocess.TimeoutExpired:
            raise ToolError("TLC timed out on %s" % name)
        finally:
            # the states directory of a large run is tens of gigabytes: never leave it behind
            shutil.rmtree(md, ignore_errors=True)
            shutil.rmtree(jtmp, ignore_errors=True)
    st = tlc_stats(out)
    st["wall_s"] = round(time.time() - t0, 1)
    st["exit"] = r.returncode
    st["cmd"] = " ".join(cmd[cmd.index("tlc2.TLC"):])
    return out, st


def tlc_stats(out):
    st = {"generated": 0, "distinct": 0, "depth": 0, "ok": False, "error": None}
    err_lines = []
    with open(out, errors="replace") as f:
        for line in f:
            if line.startswith("<<\"BEH\"") or line.startswith("<<\"REPLAY\""):
                continue
            m = re.match(r"(\d+) states generated, (\d+) distinct states found", line)
            if m:
                st["generated"], st["distinct"] = int(m.group(1)), int(m.group(2))
            m = re.match(r"The depth of the complete state graph search is (\d+)", line)
            if m:
                st["depth"] = int(m.group(1))
            if "Model checking completed. No error has been found." in line:
                st["ok"] = True
            if line.startswith("Error:") or "is violated" in line or "Exception" in line:
                err_lines.append(line.strip())
    if err_lines:
        st["error"] = " | ".join(err_lines[:4])
    return st


# ------------------------------------------------------------------ reporting

def next_replay_path(prop, tier, tag):
    os.makedirs(REPLAYS, exist_ok=True)
    i = 0
    while True:
        p = os.path.join(REPLAYS, "%s-%s-%s-%d.json" % (prop, tier, tag, i))
        if not os.path.exists(p):
            return p
        i += 1


def load_known_findings():
    p = os.path.join(VERIF, "known_findings.json")
    if not os.path.exists(p):
        return {"findings": [], "fixed": []}
    return json.load(open(p))


def write_evidence(prop, tier, seed, level, coverage, assumptions, wall, violations):
    os.makedirs(EVIDENCE, exist_ok=True)
    ev = {
        "property_id": prop,
        "tier": tier,
        "seed": seed,
        "level": level,
        "coverage": coverage,
        "assumptions": assumptions,
        "wall_s": round(wall, 1),
        "violations": violations,
    }
    with open(os.path.join(EVIDENCE, prop + ".json"), "w") as f:
        json.dump(ev, f, indent=1, sort_keys=False)
        f.write("\n")
