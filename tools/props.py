"""Per-property check definitions: which stages run at which tier, with which bounds."""
import functools, json
import stages as S
import mm as M
import layout as LY
import ctor as CT
import cmpstage as CM
import ovstage as OV
import sdstage as SD
import apalache as AP
from stages import BASE, CONV, CONV_CORE, BORROW, UNIQ, COW, UNWRAP

SIZED_MODULES = ["Triomphe.tla", "MC_Sized.tla"]


def stage(fn, *a, **kw):
    f = functools.partial(fn, *a, **kw)
    f.__name__ = kw.get("name", a[2] if len(a) > 2 else fn.__name__)
    return f


def sized(prop, tier, name, ops, nslots, nblocks, frames, hows=("new", "newB", "unique"), simulate=None, harness_cfg="a", cats=None):
    cfg = S.sized_cfg(ops, nslots, nblocks, frames, list(hows))
    return stage(S.graph_replay, prop, tier, name, "sized", "MC_Sized.tla", SIZED_MODULES, cfg, nslots, simulate=simulate,
                 harness_cfg=harness_cfg, cats=cats)


ALL_SIZED = BASE + CONV + BORROW + UNIQ + COW + UNWRAP


def walks(prop, tier, seed, ops=None, hows=("new", "newB", "unique")):
    """random walks (tlc -simulate) through the sized-family specification with more slots, blocks and
    frame depth than the exhaustive configurations reach"""
    n, d = (400, 40) if tier == "quick" else (2000, 80)
    return sized(prop, tier, "sized_walks_" + tier[0], ops or ALL_SIZED, 6, 4, 2, hows=hows, simulate=(n, d, seed))


def mm(prop, tier, name, configs):
    return stage(M.mm_stage, prop, tier, name, configs)


def inj(prop, tier):
    return stage(M.inject_stage, prop, tier, "inject_" + tier[0])


def inj_dev(prop, tier):
    """the same injections into the unoptimised build (dev profile): reads the optimiser removes are real there"""
    return stage(M.inject_stage, prop, tier, "inject_dev_" + tier[0], cfg="d")


def tr(prop, tier, name, seed):
    runs, nops = (200, 30) if tier == "quick" else (4000, 40)
    return stage(M.trace_stage, prop, tier, name, seed, runs, nops)


def nested_frames(prop, tier):
    """callbacks nested two levels deep, exhaustively (restricted operation set)"""
    ops = ["New", "Clone", "CloneArc", "Drop", "IntoOff", "FromOff", "Borrow", "Enter", "Exit", "MakeMut", "IsUnique"]
    return sized(prop, tier, "sized_nested_frames_" + tier[0], ops, 4 if tier == "quick" else 5, 2, 2, hows=("new",))


def thin_lengths(prop, tier):
    """the thin family with slice lengths up to 6 (restricted operation set, 2 slots)"""
    ops = ["NewFat", "NewThin", "Clone", "Drop", "IntoThin", "FromThin", "ProtFromThin", "ProtIntoThin", "ThinIntoRaw", "ThinFromRaw", "GetMut"]
    return thin(prop, tier, "thin_lengths_" + tier[0], ops, 2, 2, 1, 6)


def long_walks(prop, tier, seed):
    """long histories with many live handles: 12-16 slots, 30-40 blocks, frame depth 3, depth 200-400"""
    ns, nb, n, d = (12, 30, 6, 200) if tier == "quick" else (16, 40, 12, 300)
    return [sized(prop, tier, "sized_long_walks_" + tier[0], ALL_SIZED, ns, nb, 3, hows=("new", "newB", "unique", "from", "box"), simulate=(n, d, seed + 1)),
            thin(prop, tier, "thin_long_walks_" + tier[0], THIN_OPS, ns, nb, 3, 3, simulate=(n if tier == "thorough" else 3, d, seed + 2)),
            slices(prop, tier, "slices_long_walks_" + tier[0], ns, nb, 3, simulate=(n, d, seed + 3)),
            uninit(prop, tier, "uninit_long_walks_" + tier[0], ns, nb, 4, simulate=(n, d, seed + 4))]


def c02_reads(tier):
    """reads through handles of every kind, including callbacks and comparison / hash impls that unwind"""
    t = tier[0]
    n = 3 if tier == "quick" else 4
    return [thin("C02", tier, "thin_frames_" + t, THIN_OPS, n, 2, 1, 1),
            sized("C02", tier, "sized_frames_" + t, BASE + CONV_CORE + ["Borrow", "Enter", "Exit", "Unsize", "UnsizeUnq", "ShareableDyn", "TryUnwrap", "IntoInner"], n, 2, 1, hows=("new", "newB", "unique")),
            stage(CT.ctor_stage, "C02", tier, "observers_" + t, ["observe"], True,
                  only_cats=["count", "poison", "drops", "frees", "baddrop", "crash"])]


def c02(tier, seed):
    ops = ["clone", "read", "drop"]
    if tier == "quick":
        return [mm("C02", tier, "mm_clone_drop_q", [("c02_2x3", ops, 2, 3, 2, False), ("c02_3x2", ops, 3, 2, 1, False),
                                                     ("c02_2x4", ops + ["count"], 2, 4, 1, False),
                                                     ("c02_2x3u", ops + ["try_unwrap"], 2, 3, 2, False)]),
                tr("C02", tier, "threads_q", seed), inj("C02", tier), inj_dev("C02", tier),
                # a read through a handle that unwinds (panicking callback / comparison / hash impl) must leave every count alone
                ] + c02_reads(tier) + swaps("C02", tier, seed, hows=("init", "thin"))
    return [mm("C02", tier, "mm_clone_drop_t", [("c02_2x3", ops, 2, 3, 2, False), ("c02_3x3", ops, 3, 3, 1, False),
                                                 ("c02_4x2", ops, 4, 2, 1, False), ("c02_2x5", ops, 2, 5, 2, False),
                                                 ("c02_3x2h", ops + ["count"], 3, 2, 1, True),
                                                 ("c02_3x2u", ops + ["try_unwrap"], 3, 2, 1, False)]),
            tr("C02", tier, "threads_t", seed), inj("C02", tier), inj_dev("C02", tier)] + c02_reads(tier) + swaps("C02", tier, seed, hows=("init", "thin"))


def lay(prop, tier, name):
    return stage(LY.layout_stage, prop, tier, name)


def c05(tier, seed):
    return [lay("C05", tier, "layout_matrix_" + tier[0]),
            stage(CT.ctor_stage, "C05", tier, "release_" + tier[0], ["release", "union_drop"], True),
            # a block must be large enough whatever the iterator claims: misreporting iterators, red zones
            stage(CT.ctor_stage, "C05", tier, "ctor_fit_" + tier[0], ["fhi", "thin", "collect", "vec"], True,
                  only_cats={"overrun", "layout", "baddrop"}),
            # "freed once, when the last handle goes away" along histories with panicking Clone / callbacks
            sized("C05", tier, "sized_release_" + tier[0], BASE + CONV_CORE + ["MakeMut", "UnwrapOrClone", "Enter", "Exit", "TryUnwrap"],
                  3 if tier == "quick" else 4, 2, 1, hows=("new", "newB")),
            # ... and along schedules: every release path the running code takes (including the one make_mut and
            # unwrap_or_clone perform after the clone) must free the block when it turns out to be the last
            mm("C05", tier, "mm_release_" + tier[0], [("c05_2x3", ["clone", "drop", "make_mut"], 2, 3, 2, False)] if tier == "quick" else
               [("c05_2x3", ["clone", "drop", "make_mut"], 2, 3, 2, False), ("c05_2x3u", ["clone", "drop", "unwrap_or_clone", "try_unwrap"], 2, 3, 2, False),
                ("c05_3x2", ["clone", "drop", "make_mut"], 3, 2, 1, False)]),
            inj("C05", tier),
            # the thin family: a callback that replaced the Arc (and then unwound) leaves every block released exactly once
            thin("C05", tier, "thin_release_" + tier[0], THIN_OPS, 3 if tier == "quick" else 4, 2, 1, 1)]


def c11(tier, seed):
    ops = BASE + CONV + ["Borrow", "BorCopy", "Enter", "Exit", "PtrEq", "MakeMut"]
    return [lay("C11", tier, "layout_matrix_" + tier[0]), stage(LY.widths_stage, "C11", tier, "widths_" + tier[0]),
            sized("C11", tier, "sized_raw_" + tier[0], ops, 3 if tier == "quick" else 4, 2, 1),
            slices("C11", tier, "slices_raw_" + tier[0], 3 if tier == "quick" else 4, 2, 2)] + swaps("C11", tier, seed, hows=("init", "thin"))


THIN_MODULES = ["Thin.tla", "MC_Thin.tla"]
THIN_OPS = ["NewFat", "NewThin", "Clone", "CloneFrom", "Drop", "IntoThin", "FromThin", "ProtFromThin", "ProtIntoThin", "ThinIntoRaw",
            "ThinFromRaw", "ThinIntoPtr", "ThinFromPtr", "Enter", "Exit", "Replace", "Swap", "GetMut"]


# the observer cases whose handle is a ThinArc: a panicking / count-reading payload impl (7..12, 31..36), a failing sink (53..56)
THIN_OBSERVERS = {"observe": tuple(range(7, 13)) + tuple(range(31, 37)) + tuple(range(53, 57))}


def thin_cfg(ops, nslots, nblocks, frames, maxlen):
    return "\n".join(["SPECIFICATION MCSpec", "CONSTANTS", "  NSlots = %d" % nslots, "  NBlocks = %d" % nblocks,
                      "  MaxFrames = %d" % frames, "  MaxLen = %d" % maxlen, "  KeepHist = TRUE", "  Ops = %s" % S.tla_set(ops),
                      "VIEW MCView", "INVARIANT Invariants", "PROPERTY ActionsOK", "ACTION_CONSTRAINT Emit", "CHECK_DEADLOCK FALSE", ""])


def thin(prop, tier, name, ops, nslots, nblocks, frames, maxlen, simulate=None, harness_cfg="a"):
    return stage(S.graph_replay, prop, tier, name, "thin", "MC_Thin.tla", THIN_MODULES, thin_cfg(ops, nslots, nblocks, frames, maxlen), nslots,
                 simulate=simulate, harness_cfg=harness_cfg)


UNINIT_MODULES = ["Uninit.tla", "MC_Uninit.tla"]
UNINIT_OPS = ["NewUninit", "Write", "ArcWrite", "AsMutSlice", "Clone", "Drop", "Shareable", "TryUnique", "AssumeInit"]


def uninit(prop, tier, name, nslots, nblocks, maxlen, simulate=None, scale=1, harness_cfg="a"):
    cfg = "\n".join(["SPECIFICATION MCSpec", "CONSTANTS", "  NSlots = %d" % nslots, "  NBlocks = %d" % nblocks, "  MaxLen = %d" % maxlen,
                     "  KeepHist = TRUE", "  Ops = %s" % S.tla_set(UNINIT_OPS), "VIEW MCView", "INVARIANT Invariants",
                     "PROPERTY ActionsOK", "ACTION_CONSTRAINT Emit", "CHECK_DEADLOCK FALSE", ""])
    return stage(S.graph_replay, prop, tier, name, "uninit", "MC_Uninit.tla", UNINIT_MODULES, cfg, nslots, simulate=simulate, scale=scale, harness_cfg=harness_cfg)


def c15(tier, seed):
    if tier == "quick":
        return [uninit("C15", tier, "uninit_q", 3, 2, 2), uninit("C15", tier, "uninit_walks_q", 5, 4, 4, simulate=(500, 40, seed)),
                # the same graph against the crate built unoptimised with debug assertions on (the profile `cargo test` uses)
                uninit("C15", tier, "uninit_dev_q", 3, 2, 2, harness_cfg="d"),
                # the same behaviours with long slices: each slot of the specification is 9 (17) consecutive slots
                uninit("C15", tier, "uninit_long_q", 2, 2, 2, scale=9), uninit("C15", tier, "uninit_long17_q", 2, 1, 2, scale=17),
                # the deprecated Arc::write / as_mut_slice are uniqueness gates: their load is part of the extracted protocol
                mm("C15", tier, "mm_deprecated_write_q", [("c15_2x3", ["clone", "read", "drop", "get_mut"], 2, 3, 2, False)]),
                stage(CT.ctor_stage, "C15", tier, "release_q", ["release"], True, only_cats=["frees", "drops", "baddrop", "leak", "crash", "panicked"]),
                # every payload shape through the uninit constructors: the block asked for is the block given back
                lay("C15", tier, "layout_matrix_q"),
                # a block built through the uninit constructors with a recorded length of its own, then made thin
                stage(CT.ctor_stage, "C15", tier, "ctor_uninit_q", ["fhi", "thin", "collect", "zst"], True, only_cats=["contents", "baddrop", "drops", "overrun", "crash", "panicked", "leak"], only_k={"zst": (15, 24)}),
                thin("C15", tier, "thin_reclen_q", ["NewFat", "NewThin", "Clone", "Drop", "IntoThin", "FromThin", "ProtFromThin", "ProtIntoThin"], 3, 2, 1, 2),
            stage(LY.gates_stage, "C15", tier, "gates_q", gates=["deprecated"])] + swaps("C15", tier, seed, hows=("uninit",))
    return [uninit("C15", tier, "uninit_t", 3, 2, 3), uninit("C15", tier, "uninit_t4", 4, 2, 2),
            uninit("C15", tier, "uninit_dev_t", 3, 2, 3, harness_cfg="d"),
            uninit("C15", tier, "uninit_walks_t", 5, 4, 5, simulate=(5000, 60, seed)),
            uninit("C15", tier, "uninit_long_t", 3, 2, 2, scale=9), uninit("C15", tier, "uninit_long17_t", 2, 2, 3, scale=17),
            uninit("C15", tier, "uninit_long64_t", 2, 1, 2, scale=64),
            mm("C15", tier, "mm_deprecated_write_t", [("c15_2x4", ["clone", "read", "drop", "get_mut"], 2, 4, 2, False), ("c15_3x2", ["clone", "read", "drop", "get_mut"], 3, 2, 1, False)]),
            stage(CT.ctor_stage, "C15", tier, "release_t", ["release"], True, only_cats=["frees", "drops", "baddrop", "leak", "crash", "panicked"]),
            lay("C15", tier, "layout_matrix_t"),
            stage(CT.ctor_stage, "C15", tier, "ctor_uninit_t", ["fhi", "thin", "collect", "zst"], True, only_cats=["contents", "baddrop", "drops", "overrun", "crash", "panicked", "leak"], only_k={"zst": (15, 24)}),
            thin("C15", tier, "thin_reclen_t", ["NewFat", "NewThin", "Clone", "Drop", "IntoThin", "FromThin", "ProtFromThin", "ProtIntoThin"], 4, 2, 1, 3),
            stage(LY.gates_stage, "C15", tier, "gates_t", gates=["deprecated"])] + swaps("C15", tier, seed, hows=("uninit",))


def c06(tier, seed):
    hows = ("new", "newB", "from", "default", "box", "boxB", "unique", "uniqueB")
    return [stage(CT.ctor_stage, "C06", tier, "ctor_honest_" + tier[0], ["fhi", "thin", "collect", "vec", "slice", "str"], False),
            sized("C06", tier, "sized_ctor_" + tier[0], BASE + ["Shareable", "IntoInner", "TryUnwrap"], 3 if tier == "quick" else 4, 3, 1, hows=hows),
            lay("C06", tier, "layout_matrix_" + tier[0]),
            stage(CT.ctor_stage, "C06", tier, "zst_" + tier[0], ["zst"], True, only_cats=["drops", "leak", "layout", "panicked", "crash"]),
            # also when the iterator panics or misreports: every input element is destroyed at most once, and nothing that was never an input is
            stage(CT.ctor_stage, "C06", tier, "ctor_faulty_" + tier[0], ["fhi", "thin", "collect", "vec"], True, only_cats=["baddrop", "drops", "overrun", "crash"])]


def c07(tier, seed):
    frames = BASE + CONV_CORE + ["Borrow", "Enter", "Exit", "MakeMut", "UnwrapOrClone"]
    n = 3 if tier == "quick" else 4
    return [stage(CT.ctor_stage, "C07", tier, "ctor_faults_" + tier[0], ["fhi", "thin", "collect", "vec", "observe", "release"], True),
            sized("C07", tier, "sized_panics_" + tier[0], frames, n, 2, 2 if tier == "thorough" else 1, hows=("new", "newB")),
            thin("C07", tier, "thin_panics_" + tier[0], THIN_OPS, n, 2, 1, 1), nested_frames("C07", tier),
            thin("C07", tier, "thin_walks_" + tier[0], THIN_OPS, 6, 4, 2, 3, simulate=((1000, 40, seed) if tier == "quick" else (5000, 80, seed)))]


def c17(tier, seed):
    return [stage(SD.serde_stage, "C17", tier, "serde_" + tier[0])]


def c16(tier, seed):
    return [stage(OV.overflow_stage, "C16", tier, "overflow_" + tier[0])]


def c14(tier, seed):
    return [stage(CM.compare_stage, "C14", tier, "compare_" + tier[0])]


SWAP_MODULES = ["Swap.tla", "MC_Swap.tla"]
SWAP_OPS = ["New", "Clone", "Drop", "CellNew", "LoadFull", "Load", "Upgrade", "Store", "Swap", "Cas", "IntoInner", "CellDrop",
            "Read", "IsUnique", "GetMut", "ArcWrite", "MakeMut", "TryUnwrap"]


def swap(prop, tier, name, nslots, nblocks, ncells, hows=("init", "uninit"), ops=None, simulate=None):
    """real arc_swap::ArcSwapAny cells over the RefCnt glue (Swap.tla): a cell owns exactly one count"""
    cfg = "\n".join(["SPECIFICATION MCSpec", "CONSTANTS", "  NSlots = %d" % nslots, "  NBlocks = %d" % nblocks, "  NCells = %d" % ncells,
                     "  Hows = %s" % S.tla_set(list(hows)), "  KeepHist = TRUE", "  Ops = %s" % S.tla_set(ops or SWAP_OPS),
                     "VIEW MCView", "INVARIANT Invariants", "PROPERTY ActionsOK", "ACTION_CONSTRAINT Emit", "CHECK_DEADLOCK FALSE", ""])
    return stage(S.graph_replay, prop, tier, name, "swap", "MC_Swap.tla", SWAP_MODULES, cfg, nslots, simulate=simulate)


def swaps(prop, tier, seed, hows=("init", "uninit", "thin")):
    """the arc-swap family at the tier's bounds: exhaustive small graph per flavour + walks with two cells"""
    t = tier[0]
    out = []
    if tier == "quick":
        for h in hows:
            out.append(swap(prop, tier, "swap_%s_%s" % (h, t), 3, 2, 1, hows=(h,)))
        out.append(swap(prop, tier, "swap_walks_" + t, 6, 4, 2, hows=hows, simulate=(300, 40, seed + 7)))
    else:
        for h in hows:
            out.append(swap(prop, tier, "swap_%s_%s" % (h, t), 4, 2, 1, hows=(h,)))
        out.append(swap(prop, tier, "swap_mixed_" + t, 3, 2, 2, hows=hows))
        out.append(swap(prop, tier, "swap_walks_" + t, 8, 5, 3, hows=hows, simulate=(2500, 60, seed + 7)))
    return out


SLICES_MODULES = ["Slices.tla", "MC_Slices.tla"]
SLICES_OPS = ["New", "Clone", "Drop", "Erase", "Unerase", "IntoRaw", "FromRawSlice", "FromRaw", "Shareable", "Unsize", "Borrow", "TryUnique", "GetMut"]


def slices(prop, tier, name, nslots, nblocks, maxlen, simulate=None):
    cfg = "\n".join(["SPECIFICATION MCSpec", "CONSTANTS", "  NSlots = %d" % nslots, "  NBlocks = %d" % nblocks, "  MaxLen = %d" % maxlen, "  ArrLen = 2",
                     "  KeepHist = TRUE", "  Ops = %s" % S.tla_set(SLICES_OPS), "VIEW MCView", "INVARIANT Invariants",
                     "PROPERTY ActionsOK", "ACTION_CONSTRAINT Emit", "CHECK_DEADLOCK FALSE", ""])
    return stage(S.graph_replay, prop, tier, name, "slices", "MC_Slices.tla", SLICES_MODULES, cfg, nslots, simulate=simulate)


def c10(tier, seed):
    if tier == "quick":
        return [thin("C10", tier, "thin_q", THIN_OPS, 3, 2, 1, 1), thin_lengths("C10", tier),
                # the same graph against the no_std build and against the build with debug assertions
                thin("C10", tier, "thin_nostd_q", THIN_OPS, 3, 2, 1, 1, harness_cfg="b"), thin("C10", tier, "thin_debug_q", THIN_OPS, 3, 2, 1, 1, harness_cfg="d"),
                thin("C10", tier, "thin_walks_q", THIN_OPS, 6, 4, 2, 3, simulate=(1000, 40, seed)),
                lay("C10", tier, "layout_matrix_q"), inj("C10", tier),
            # "every ThinArc obtainable through the safe API": also from iterators that misreport or change their length
            stage(CT.ctor_stage, "C10", tier, "ctor_thin_" + tier[0], ["thin", "zst", "observe"], True,
                  only_cats=["thin", "contents", "overrun", "layout", "baddrop", "crash", "count", "drops", "poison"], only_k=THIN_OBSERVERS)] + swaps("C10", tier, seed, hows=("thin",))
    return [thin("C10", tier, "thin_t", THIN_OPS, 4, 2, 2, 2), thin_lengths("C10", tier),
            thin("C10", tier, "thin_nostd_t", THIN_OPS, 3, 2, 2, 2, harness_cfg="b"), thin("C10", tier, "thin_debug_t", THIN_OPS, 3, 2, 2, 2, harness_cfg="d"),
            thin("C10", tier, "thin_walks_t", THIN_OPS, 6, 4, 2, 3, simulate=(5000, 80, seed)),
            lay("C10", tier, "layout_matrix_t"), inj("C10", tier),
            # "every ThinArc obtainable through the safe API": also from iterators that misreport or change their length
            stage(CT.ctor_stage, "C10", tier, "ctor_thin_" + tier[0], ["thin", "observe"], True,
                  only_cats=["thin", "contents", "overrun", "layout", "baddrop", "crash", "count", "drops", "poison"], only_k=THIN_OBSERVERS)] + swaps("C10", tier, seed, hows=("thin",))


def c01(tier, seed):
    if tier == "quick":
        return [sized("C01", tier, "sized_life_q", BASE + CONV + BORROW + ["TryUnique"], 3, 2, 1),
                sized("C01", tier, "sized_life_q4", BASE + CONV_CORE + ["Borrow", "Enter", "Exit"], 4, 2, 1, hows=("new", "newB")),
                walks("C01", tier, seed),
                thin("C01", tier, "thin_life_q", THIN_OPS, 3, 2, 1, 1),
                slices("C01", tier, "slices_life_q", 3, 2, 2),
                # the same graph against the no_std build of the crate (configuration B)
                sized("C01", tier, "sized_life_nostd_q", BASE + CONV_CORE + ["Borrow", "Enter", "Exit", "TryUnique", "MakeMut", "TryUnwrap"], 3, 2, 1, harness_cfg="b"),
                # ... and against the crate as `cargo build` / `cargo test` build it (debug assertions, overflow checks)
                sized("C01", tier, "sized_life_debug_q", BASE + CONV_CORE + ["Borrow", "Enter", "Exit", "TryUnique", "MakeMut", "TryUnwrap", "IntoInner"], 3, 2, 1, harness_cfg="d"),
                thin("C01", tier, "thin_life_debug_q", THIN_OPS, 3, 2, 1, 1, harness_cfg="d"),
                mm("C01", tier, "mm_clone_drop_q", [("c01_2x3", ["clone", "read", "drop"], 2, 3, 2, False)]),
                nested_frames("C01", tier), thin_lengths("C01", tier), inj("C01", tier), inj_dev("C01", tier),
                # every release path of every shape returns the block once; real ArcSwap traffic keeps counts exact
                lay("C01", tier, "layout_matrix_q"),
                stage(CT.ctor_stage, "C01", tier, "release_q", ["release", "union_drop", "zst"], True, only_cats=["frees", "drops", "baddrop", "leak", "crash", "panicked"]),
                stage(CT.ctor_stage, "C01", tier, "ctor_life_q", ["fhi", "thin", "collect", "vec"], True, only_cats=["drops", "baddrop", "layout", "overrun", "crash"])] + swaps("C01", tier, seed) + long_walks("C01", tier, seed)
    return [sized("C01", tier, "sized_life_t", BASE + CONV + BORROW + ["TryUnique"], 4, 2, 2),
            sized("C01", tier, "sized_life_t5", BASE + CONV_CORE + ["Enter", "Exit"], 5, 2, 1, hows=("new", "newB")),
            walks("C01", tier, seed),
            thin("C01", tier, "thin_life_t", THIN_OPS, 4, 2, 2, 2),
            slices("C01", tier, "slices_life_t", 4, 2, 2), slices("C01", tier, "slices_walks_t", 6, 4, 3, simulate=(4000, 60, seed)),
            sized("C01", tier, "sized_life_nostd_t", BASE + CONV + BORROW + UNIQ + COW + UNWRAP, 3, 2, 1, harness_cfg="b"),
            sized("C01", tier, "sized_life_debug_t", BASE + CONV + BORROW + UNIQ + COW + UNWRAP, 3, 2, 1, harness_cfg="d"),
            thin("C01", tier, "thin_life_debug_t", THIN_OPS, 4, 2, 1, 2, harness_cfg="d"),
            mm("C01", tier, "mm_clone_drop_t", [("c01_2x3", ["clone", "read", "drop"], 2, 3, 2, False), ("c01_3x3", ["clone", "read", "drop"], 3, 3, 1, False)]), inj("C01", tier), inj_dev("C01", tier),
            lay("C01", tier, "layout_matrix_t"),
            stage(CT.ctor_stage, "C01", tier, "release_t", ["release", "union_drop", "zst"], True, only_cats=["frees", "drops", "baddrop", "leak", "crash", "panicked"]),
                stage(CT.ctor_stage, "C01", tier, "ctor_life_t", ["fhi", "thin", "collect", "vec"], True, only_cats=["drops", "baddrop", "layout", "overrun", "crash"])] + swaps("C01", tier, seed) + long_walks("C01", tier, seed)


def c03(tier, seed):
    ops = BASE + CONV_CORE + UNIQ + ["Borrow", "Enter", "Exit", "TryUnwrap", "MakeMut", "Unsize", "UnsizeUnq", "ShareableDyn"]
    mops = ["clone", "read", "drop", "get_mut"]
    if tier == "quick":
        return [sized("C03", tier, "sized_uniq_q", ops, 3, 2, 1),
                mm("C03", tier, "mm_uniq_q", [("c03_2x3", mops, 2, 3, 2, False), ("c03_3x2", mops, 3, 2, 1, False)]),
                tr("C03", tier, "threads_q", seed), inj("C03", tier), thin("C03", tier, "thin_uniq_" + tier[0], THIN_OPS, 3 if tier == "quick" else 4, 2, 1, 1),
            stage(CT.ctor_stage, "C03", tier, "zst_" + tier[0], ["zst"], True, only_cats=["verdict", "panicked", "crash"]),
            stage(LY.surface_stage, "C03", tier, "surface_" + tier[0]),
            stage(LY.gates_stage, "C03", tier, "gates_" + tier[0], gates=["is_unique", "get_mut", "try_unique", "try_from", "deprecated"])] + swaps("C03", tier, seed, hows=("init", "thin"))
    return [sized("C03", tier, "sized_uniq_t", ops + ["Unsize", "IntoRawDyn", "FromRawDyn"], 4, 2, 1),
            mm("C03", tier, "mm_uniq_t", [("c03_2x4", mops, 2, 4, 2, False), ("c03_3x3", mops, 3, 3, 1, False),
                                          ("c03_3x2h", mops, 3, 2, 1, True)]),
            tr("C03", tier, "threads_t", seed), inj("C03", tier), thin("C03", tier, "thin_uniq_" + tier[0], THIN_OPS, 3 if tier == "quick" else 4, 2, 1, 1),
            stage(CT.ctor_stage, "C03", tier, "zst_" + tier[0], ["zst"], True, only_cats=["verdict", "panicked", "crash"]),
            stage(LY.surface_stage, "C03", tier, "surface_" + tier[0]),
            stage(LY.gates_stage, "C03", tier, "gates_" + tier[0], gates=["is_unique", "get_mut", "try_unique", "try_from", "deprecated"])] + swaps("C03", tier, seed, hows=("init", "thin"))


def c04(tier, seed):
    ops = BASE + CONV + BORROW + ["TryUnique", "MakeMut", "UnwrapOrClone"]
    if tier == "quick":
        return [sized("C04", tier, "sized_count_q", ops, 3, 2, 1), walks("C04", tier, seed),
                thin("C04", tier, "thin_count_q", THIN_OPS, 3, 2, 1, 1), slices("C04", tier, "slices_count_q", 3, 2, 2),
                tr("C04", tier, "threads_q", seed), inj("C04", tier), stage(AP.ind_stage, "C04", tier, "apalache_inductive_q"),
                # comparing, hashing or formatting never changes a count, not even while it is in progress
                stage(CT.ctor_stage, "C04", tier, "observers_q", ["observe"], True, only_cats=["count", "crash"]),
                stage(CT.ctor_stage, "C04", tier, "ctor_counts_q", ["fhi", "thin", "collect", "vec", "slice", "str"], False, only_cats=["count", "crash"]),
                stage(CT.ctor_stage, "C04", tier, "ctor_faulty_q", ["fhi", "thin", "collect"], True, only_cats=["count", "drops", "baddrop", "crash"]),
                stage(OV.overflow_stage, "C04", tier, "overflow_q")] + swaps("C04", tier, seed) + long_walks("C04", tier, seed)
    return [sized("C04", tier, "sized_count_t", ops, 4, 2, 2), walks("C04", tier, seed),
            thin("C04", tier, "thin_count_t", THIN_OPS, 4, 2, 2, 2), slices("C04", tier, "slices_count_t", 4, 2, 2),
            tr("C04", tier, "threads_t", seed), inj("C04", tier), stage(AP.ind_stage, "C04", tier, "apalache_inductive_t"),
                # comparing, hashing or formatting never changes a count, not even while it is in progress
                stage(CT.ctor_stage, "C04", tier, "observers_t", ["observe"], True, only_cats=["count", "crash"]),
                stage(CT.ctor_stage, "C04", tier, "ctor_counts_t", ["fhi", "thin", "collect", "vec", "slice", "str"], False, only_cats=["count", "crash"]),
                stage(CT.ctor_stage, "C04", tier, "ctor_faulty_t", ["fhi", "thin", "collect"], True, only_cats=["count", "drops", "baddrop", "crash"]),
                stage(OV.overflow_stage, "C04", tier, "overflow_t")] + swaps("C04", tier, seed) + long_walks("C04", tier, seed)


# what can be compared when payloads have no destructor to report from
PLAIN_CATS = ["kind", "block", "frame", "verdict", "ncl", "seen", "value", "ident", "count", "stray", "frees", "panicked"]


def c08(tier, seed):
    ops = BASE + CONV_CORE + COW + ["Borrow", "Enter", "Exit", "GetMut"]
    mops = ["clone", "read", "drop", "make_mut"]
    if tier == "quick":
        return [sized("C08", tier, "sized_cow_q", ops, 3, 3, 1, hows=("new", "newB")),
                # the same graph with payloads that have no drop glue (4 KB and 12 bytes): their Clone is still a call
                sized("C08", tier, "sized_cow_plain_q", BASE + COW + ["GetMut", "IntoOff", "FromOff"], 3, 3, 1, hows=("new", "newB"), harness_cfg="p", cats=PLAIN_CATS),
                mm("C08", tier, "mm_cow_q", [("c08_2x3", mops, 2, 3, 2, False), ("c08_3x2", mops, 3, 2, 1, False)]),
                tr("C08", tier, "threads_q", seed), inj("C08", tier), lay("C08", tier, "layout_matrix_q"),
            stage(CT.ctor_stage, "C08", tier, "zst_q", ["zst"], True, only_cats=["verdict", "ncl", "drops", "leak", "panicked", "crash"]),
            # make_mut's own unwinding paths (a panicking destructor of the old value, a panicking Clone): release cases
            stage(CT.ctor_stage, "C08", tier, "release_q", ["release"], True, only_cats=["frees", "drops", "baddrop", "leak", "crash", "panicked", "verdict", "contents", "block"]),
            stage(LY.surface_stage, "C08", tier, "surface_q"),
            stage(LY.gates_stage, "C08", tier, "gates_q", gates=["make_mut", "make_unique"])] + swaps("C08", tier, seed, hows=("init",))
    return [sized("C08", tier, "sized_cow_t", ops, 4, 3, 1, hows=("new", "newB")),
            sized("C08", tier, "sized_cow_plain_t", ops, 3, 3, 1, hows=("new", "newB"), harness_cfg="p", cats=PLAIN_CATS),
            mm("C08", tier, "mm_cow_t", [("c08_2x4", mops, 2, 4, 2, False), ("c08_3x2", mops, 3, 2, 2, False),
                                         # three threads x three calls without the plain read (270 M states with it: an hour)
                                         ("c08_3x3", ["clone", "drop", "make_mut"], 3, 3, 1, False)]),
            tr("C08", tier, "threads_t", seed), inj("C08", tier), lay("C08", tier, "layout_matrix_t"),
            stage(CT.ctor_stage, "C08", tier, "zst_t", ["zst"], True, only_cats=["verdict", "ncl", "drops", "leak", "panicked", "crash"]),
            stage(CT.ctor_stage, "C08", tier, "release_t", ["release"], True, only_cats=["frees", "drops", "baddrop", "leak", "crash", "panicked", "verdict", "contents", "block"]),
            stage(LY.surface_stage, "C08", tier, "surface_t"),
            stage(LY.gates_stage, "C08", tier, "gates_t", gates=["make_mut", "make_unique"])] + swaps("C08", tier, seed, hows=("init",))


def c09(tier, seed):
    ops = BASE + CONV_CORE + UNWRAP + ["TryUnique", "Borrow", "Enter", "Exit", "Unsize", "UnsizeUnq", "ShareableDyn", "IsUnique", "MakeMut"]
    mops = ["try_unwrap", "unwrap_or_clone", "drop", "get_mut", "clone"]
    if tier == "quick":
        return [sized("C09", tier, "sized_unwrap_q", ops, 3, 2, 1),
                mm("C09", tier, "mm_unwrap_q", [("c09_2x3", mops, 2, 3, 2, False), ("c09_3x2", mops, 3, 2, 1, False)]),
                tr("C09", tier, "threads_q", seed), inj("C09", tier),
            # unwrapping every payload shape (zero-sized, over-aligned, large) returns the block with its layout
            lay("C09", tier, "layout_matrix_" + tier[0]),
            stage(CT.ctor_stage, "C09", tier, "zst_" + tier[0], ["zst"], True, only_cats=["drops", "leak", "layout", "panicked", "crash"]),
            # co-owners of other kinds: a ThinArc whose with_arc_mut callback replaced the Arc leaves exact counts for a later unwrap
            thin("C09", tier, "thin_coowners_" + tier[0], THIN_OPS, 3 if tier == "quick" else 4, 2, 1, 1),
            stage(LY.gates_stage, "C09", tier, "gates_" + tier[0], gates=["try_unwrap", "unwrap_or_clone", "try_unique", "try_from"])] + swaps("C09", tier, seed, hows=("init",))
    return [sized("C09", tier, "sized_unwrap_t", ops, 4, 2, 1),
            mm("C09", tier, "mm_unwrap_t", [("c09_2x4", mops, 2, 4, 2, False), ("c09_3x2", mops, 3, 2, 2, False),
                                            ("c09_3x3", ["try_unwrap", "unwrap_or_clone", "drop"], 3, 3, 1, False)]),
            tr("C09", tier, "threads_t", seed), inj("C09", tier),
            # unwrapping every payload shape (zero-sized, over-aligned, large) returns the block with its layout
            lay("C09", tier, "layout_matrix_" + tier[0]),
            stage(CT.ctor_stage, "C09", tier, "zst_" + tier[0], ["zst"], True, only_cats=["drops", "leak", "layout", "panicked", "crash"]),
            # co-owners of other kinds: a ThinArc whose with_arc_mut callback replaced the Arc leaves exact counts for a later unwrap
            thin("C09", tier, "thin_coowners_" + tier[0], THIN_OPS, 3 if tier == "quick" else 4, 2, 1, 1),
            stage(LY.gates_stage, "C09", tier, "gates_" + tier[0], gates=["try_unwrap", "unwrap_or_clone", "try_unique", "try_from"])] + swaps("C09", tier, seed, hows=("init",))


def c12(tier, seed):
    ops = BASE + ["FromFirst", "FromSecond", "Borrow", "BorCopy", "Enter", "Exit", "IntoRaw", "FromRaw", "PtrEq"]
    if tier == "quick":
        return [sized("C12", tier, "sized_union_q", ops, 4, 2, 1, hows=("new", "newB")), lay("C12", tier, "layout_matrix_q"),
                stage(CM.compare_stage, "C12", tier, "union_variants_q", only=["different variants"]),
                stage(CT.ctor_stage, "C12", tier, "union_release_q", ["union_drop"], True), inj("C12", tier),
                stage(LY.widths_stage, "C12", tier, "widths_q"), stage(OV.overflow_stage, "C12", tier, "overflow_q"),
                stage(CT.ctor_stage, "C12", tier, "observers_q", ["observe"], True, only_cats=["count", "poison", "drops", "baddrop", "crash"])]
    return [sized("C12", tier, "sized_union_t", ops, 5, 2, 1, hows=("new", "newB")), lay("C12", tier, "layout_matrix_t"),
            stage(CM.compare_stage, "C12", tier, "union_variants_t", only=["different variants"]),
            stage(CT.ctor_stage, "C12", tier, "union_release_t", ["union_drop"], True), inj("C12", tier),
                stage(LY.widths_stage, "C12", tier, "widths_t"), stage(OV.overflow_stage, "C12", tier, "overflow_t"),
                stage(CT.ctor_stage, "C12", tier, "observers_t", ["observe"], True, only_cats=["count", "poison", "drops", "baddrop", "crash"])]


GRAPH_ASSUME = [
    "TLC explores the handle-level specification exhaustively only within the stated bounds (slots, blocks, frame depth)",
    "the canonical VIEW removes slot permutations only (cross-checked against the plain view on the small configuration)",
    "the harness allocator (poison, quarantine) and identity-tracked payloads observe destruction and deallocation faithfully",
    "single-threaded histories; schedules are decided by the ArcMM stages",
]

SWAP_ASSUME = [
    "arc-swap family (Swap.tla): ArcSwapAny with arc-swap's default strategy, used from one thread; a Guard may be held as a debt "
    "or as a count until the cell it came from is overwritten, so a count is compared as the range [handles + cells + paid guards, owners]",
]

MM_ASSUME = [
    "memory model: promise-free RC11 fragment (release/acquire/relaxed views, release sequences through RMWs, stale loads); SeqCst treated as AcqRel",
    "protocol constants are extracted from the running implementation through the cfg(triomphe_verif) tracer; a count access that bypasses the traced atomic type is invisible",
    "exhaustive only within the thread/operation bounds of each configuration",
]


def any_replay(p, v):
    if "h" in v:
        return S.replay_graph_violation(p, v)
    if v.get("key", "").startswith("width:"):
        return LY.replay_widths(p, v)
    if v.get("key", "").startswith("surface:"):
        return ["[tlc] " + e for x in LY.surface_stage(p, "quick", "replay")["violations"] for e in x["errors"]]
    if v.get("key", "").startswith("gates:"):
        g = v.get("row", {}).get("gate")
        return ["[tlc] " + e for x in LY.gates_stage(p, "quick", "replay", gates=[g] if g else None)["violations"] for e in x["errors"]]
    if v.get("key", "").startswith(("matrix:", "crash-in-matrix")):
        return LY.replay_layout(p, v)
    if v.get("key", "").startswith(("ctor:", "allocfail:", "crash-in-ctor")):
        return CT.replay_ctor(p, v)
    if p == "C14" or v.get("stage", "").startswith("union_variants"):
        return CM.replay_compare(p, v)
    if v.get("key", "").startswith(("serde:", "crash-in-serde")):
        return SD.replay_serde(p, v)
    if v.get("key", "").startswith("overflow:"):
        return OV.replay_overflow(p, v)
    return M.replay_mm(p, v)


LAYOUT_ASSUME = [
    "Layout.tla transcribes core::alloc::Layout::{extend, pad_to_align, array} and the repr(C) layout algorithm; rustc's Layout::for_value is the release-side ground truth on the real side",
    "the real matrix is a sub-lattice of the TLC matrix (each cell is a monomorphisation); the spec side is exhaustive over sizes/alignments up to 64 and lengths up to the bound",
    "the harness allocator records (size, align) at alloc and dealloc",
]

PROPS = {
    "C05": {"level": "model_checking", "stages": c05, "assumptions": LAYOUT_ASSUME + MM_ASSUME + GRAPH_ASSUME, "replay": any_replay},
    "C11": {"level": "model_checking", "stages": c11, "assumptions": LAYOUT_ASSUME + GRAPH_ASSUME + SWAP_ASSUME, "replay": any_replay},
    "C10": {"level": "model_checking", "stages": c10, "assumptions": GRAPH_ASSUME + LAYOUT_ASSUME + MM_ASSUME + SWAP_ASSUME, "replay": any_replay},
    "C15": {"level": "model_checking", "stages": c15, "assumptions": GRAPH_ASSUME + MM_ASSUME + LAYOUT_ASSUME + SWAP_ASSUME, "replay": any_replay},
    "C06": {"level": "model_checking", "stages": c06, "assumptions": GRAPH_ASSUME + ["Ctor.tla models each constructor as the sequence of calls, writes and checks the source performs; lengths beyond the fault bound are honest cases only"], "replay": any_replay},
    "C07": {"level": "fault_enumeration", "stages": c07, "assumptions": GRAPH_ASSUME + ["faults: panic at the k-th next / Clone / callback exit / comparison-hash-format impl, misreported len/size_hint within +-2 and changing between calls, failing allocation 1..3 (child processes); a leak is tolerated only where Ctor.tla leaks the half-built block"], "replay": any_replay},
    "C14": {"level": "model_checking", "stages": c14, "assumptions": ["the reference answers (what the values answer) are Compare.tla's ValEq / ValCmp: header, then slice lexicographically, then recorded length; the real value types' own impls are checked against that table, every handle kind against the values", "exhaustive over the small domain only (3 letters, slices up to the bound, recorded length equal or +1)"], "replay": any_replay},
    "C16": {"level": "model_checking", "stages": c16, "assumptions": ["the 4-bit count word is a scale model of the 64-bit one: the guard compares with half the range, which is parametric in the width", "start counts are preset through the tracer's knowledge of the count's address; each clone runs in its own child process", "concurrent increments racing past the limit are not modelled (the guard's slack of isize::MAX increments is the crate's documented assumption)"], "replay": any_replay},
    "C17": {"level": "model_checking", "stages": c17, "assumptions": ["SerCalls(value, k) is uninterpreted: the trace supplies the call log of the value and of the handle and Serde.tla requires them equal", "payload family: u64, String, tuple, Vec, Option, hand-written nested structs; recording serializer and token deserializer of the harness", "serde feature only (default configuration)"], "replay": any_replay},
    "C02": {"level": "model_checking", "stages": c02, "assumptions": MM_ASSUME + GRAPH_ASSUME, "replay": any_replay},
    "C01": {"level": "model_checking", "stages": c01, "assumptions": GRAPH_ASSUME + MM_ASSUME + LAYOUT_ASSUME + SWAP_ASSUME, "replay": any_replay},
    "C03": {"level": "model_checking", "stages": c03, "assumptions": GRAPH_ASSUME + MM_ASSUME + SWAP_ASSUME, "replay": any_replay},
    "C04": {"level": "model_checking", "stages": c04, "assumptions": GRAPH_ASSUME + SWAP_ASSUME, "replay": any_replay},
    "C08": {"level": "model_checking", "stages": c08, "assumptions": GRAPH_ASSUME + MM_ASSUME + SWAP_ASSUME, "replay": any_replay},
    "C09": {"level": "model_checking", "stages": c09, "assumptions": GRAPH_ASSUME + MM_ASSUME + SWAP_ASSUME, "replay": any_replay},
    "C12": {"level": "model_checking", "stages": c12, "assumptions": GRAPH_ASSUME + LAYOUT_ASSUME + MM_ASSUME, "replay": any_replay},
}


def finding_key(prop, v):
    """stable identification of a violation for known_findings.json"""
    if "key" in v:
        return v["key"]
    if "h" in v:
        return "behaviour:" + json.dumps(v["h"], separators=(",", ":"))
    return v.get("stage", "?") + ":" + (v.get("errors") or ["?"])[0][:120]


def coverage(prop, tier, results):
    states = sum(r.get("states") or 0 for r in results)
    trans = sum(r.get("transitions") or 0 for r in results)
    evals = sum(r.get("evaluations") or 0 for r in results)
    nontriv = sum(r.get("nontrivial") or 0 for r in results)
    traces = sum(r.get("traces") or 0 for r in results)
    samples = []
    for r in results:
        samples += r.get("samples", [])[:2]
    if not samples:
        samples = ["(no sample recorded)"]
    return {
        "states": max(states, 1),
        "transitions": max(trans, 1),
        "traces_validated_against_impl": traces,
        "samples": samples[:6],
        "evaluations": max(evals, 1),
        "distinct_nontrivial": nontriv,
        "rule": "; ".join(r.get("rule", "") for r in results if r.get("rule")) or
                "one behaviour per transition of the TLC state graph (distinct by construction: each is a different "
                "(state, action, parameters) triple); non-trivial = contains at least one operation other than New/Clone/Drop",
        "exhaustive": all(r.get("exhaustive", False) for r in results),
        "stages": [{k: v for k, v in r.items() if k in ("name", "states", "transitions", "evaluations", "nontrivial", "traces",
                                                         "replay_wall_s", "last_op_histogram", "skipped_aborted", "detail")}
                   | {"tlc": {kk: vv for kk, vv in (r.get("tlc") or {}).items() if kk in ("generated", "distinct", "depth", "wall_s", "cmd")}}
                   for r in results],
        "checker_cmd": "; ".join((r.get("tlc") or {}).get("cmd", "") for r in results if r.get("tlc")),
    }
