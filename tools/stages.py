"""Stage implementations used by /verif/check. A stage explores something and returns a dict:
   name, states, transitions, evaluations, nontrivial, traces, samples, violations, notes, exhaustive"""
import json, os, re, subprocess, time, shutil
from vlib import *

# ---------------------------------------------------------------- relevance of discrepancy categories
# Every discrepancy the harness reports carries a category. A property's check fails only on the
# categories that bear on what the property states; the others are printed as notes pointing at the
# property whose check owns them (attribution, not suppression: some check owns every category).
STRUCT = {"kind", "block", "frame"}
RELEVANT = {
    "C01": STRUCT | {"count", "value", "ident", "poison", "baddrop", "drops", "frees", "drain", "stray", "out", "overrun"},
    "C02": STRUCT | {"count", "poison", "baddrop", "drops", "frees", "drain", "stray", "value"},
    "C03": STRUCT | {"verdict", "count", "panicked", "seen"},
    "C04": STRUCT | {"count"},
    "C05": {"layout", "frees", "alloc", "align", "size", "leak", "drops", "baddrop", "overrun", "drain", "poison"},
    "C06": STRUCT | {"value", "ident", "contents", "drops", "frees", "drain", "stray", "baddrop", "poison", "panicked", "count", "overrun"},
    "C07": STRUCT | {"baddrop", "drops", "frees", "drain", "poison", "count", "panicked", "stray", "value", "leak", "exit", "overrun"},
    "C08": STRUCT | {"verdict", "ncl", "seen", "value", "ident", "count", "stray", "drops", "frees", "panicked", "drain", "baddrop", "poison"},
    "C09": STRUCT | {"verdict", "out", "drops", "frees", "count", "ncl", "seen", "drain", "stray", "baddrop", "panicked"},
    "C10": STRUCT | {"touch", "count", "value", "ident", "thin", "addr", "heap", "panicked", "drops", "frees", "drain", "baddrop", "poison", "stray", "contents", "overrun"},
    "C11": STRUCT | {"heap", "addr", "count", "value", "width", "bits", "verdict", "union"},
    "C12": STRUCT | {"union", "count", "layout", "drops", "frees", "baddrop", "drain", "value", "ident", "poison", "width", "verdict"},
    "C15": STRUCT | {"baddrop", "drops", "frees", "drain", "poison", "count", "value", "ident", "panicked", "stray", "contents", "verdict", "overrun"},
    "C16": {"abort", "count"},
    "C17": {"serde", "count", "stray", "drain", "frees", "drops"},
}
OWNER_HINT = {
    "touch": "C10", "layout": "C05", "heap": "C11", "addr": "C11", "union": "C12", "verdict": "C03", "ncl": "C08",
    "seen": "C08", "out": "C09", "count": "C04", "value": "C01", "ident": "C01", "poison": "C01",
    "baddrop": "C01", "drops": "C01", "frees": "C01", "drain": "C01", "stray": "C01", "panicked": "C07",
}


def split_errors(prop, errors, relevant=None):
    rel, other, tool = [], [], []
    for e in errors:
        cat = e[1:e.index("]")] if e.startswith("[") and "]" in e else "harness"
        if cat == "harness":
            tool.append(e)
        elif cat in (relevant if relevant is not None else RELEVANT.get(prop, set())):
            rel.append(e)
        else:
            other.append(e)
    return rel, other, tool


# ---------------------------------------------------------------- sized-family op groups
BASE = ["New", "Clone", "CloneArc", "CloneFrom", "Drop"]
CONV = ["IntoRaw", "FromRaw", "IntoPtr", "FromPtr", "IntoOff", "FromOff", "FromFirst", "FromSecond",
        "Shareable", "Unsize", "IntoRawDyn", "FromRawDyn", "CastDyn", "UnsizeUnq", "ShareableDyn", "UnsizeBor"]
CONV_CORE = ["IntoRaw", "FromRaw", "IntoOff", "FromOff", "FromFirst", "FromSecond", "Shareable"]
BORROW = ["Borrow", "BorCopy", "Enter", "Exit"]
UNIQ = ["IsUnique", "TryUnique", "GetMut", "UqWrite"]
COW = ["MakeMut"]
UNWRAP = ["TryUnwrap", "IntoInner", "UnwrapOrClone"]


def sized_cfg(ops, nslots, nblocks, maxframes, hows, emit=True, view="CanonView", countbits=8):
    return "\n".join([
        "SPECIFICATION MCSpec",
        "CONSTANTS",
        "  NSlots = %d" % nslots,
        "  NBlocks = %d" % nblocks,
        "  MaxFrames = %d" % maxframes,
        "  CountBits = %d" % countbits,
        "  KeepHist = %s" % ("TRUE" if emit else "FALSE"),
        "  Hows = %s" % tla_set(hows),
        "  Ops = %s" % tla_set(ops),
        "VIEW %s" % ("MCView" if view == "CanonView" else view),
        "INVARIANT Invariants",
        "PROPERTY ActionsOK",
        ("ACTION_CONSTRAINT Emit" if emit else ""),
        "CHECK_DEADLOCK FALSE", ""])


def _drop_big(path):
    """the exported behaviours of a stage run to gigabytes: once replayed they are not needed any more (a violation's
    replay file carries its own behaviour)"""
    try:
        if os.path.getsize(path) > 20_000_000:
            os.remove(path)
    except OSError:
        pass


def graph_replay(prop, tier, name, family, root, modules, cfg_text, nslots, harness_cfg="a", tlc_timeout=5400, simulate=None, scale=1, cats=None):
    try:
        return _graph_replay(prop, tier, name, family, root, modules, cfg_text, nslots, harness_cfg, tlc_timeout, simulate, scale, cats)
    finally:
        _drop_big(os.path.join(workdir(prop), name + ".out"))


def _graph_replay(prop, tier, name, family, root, modules, cfg_text, nslots, harness_cfg="a", tlc_timeout=5400, simulate=None, scale=1, cats=None):
    """TLC explores the handle-level specification exhaustively (invariants + action properties) and
    exports one concrete behaviour per transition; every behaviour is replayed into the real crate and
    the implementation's observable state compared with the specification's projection."""
    wd = workdir(prop)
    stage_spec(wd, modules)
    exe = build_harness(harness_cfg)
    if simulate:
        # random walks through the same specification: path coverage beyond single edges (every line is
        # a prefix of a walk plus one enabled step, replayed from scratch and compared after its last step)
        num, depth, seed = simulate
        out, st = run_tlc(wd, root, cfg_text, name, workers=1, timeout=tlc_timeout,
                          extra=["-simulate", "num=%d" % num, "-depth", str(depth), "-seed", str(seed)])
        txt = open(out, errors="replace").read()
        m = re.search(r"The number of states generated: (\d+)", txt)
        st["generated"] = int(m.group(1)) if m else 0
        st["distinct"] = st["generated"]
        st["ok"] = m is not None and "Error:" not in "".join(l for l in txt.splitlines() if not l.startswith("<<\"BEH\""))
    else:
        out, st = run_tlc(wd, root, cfg_text, name, workers=1, timeout=tlc_timeout)
    res = {"name": name, "states": st["distinct"], "transitions": st["generated"], "tlc": st,
           "evaluations": 0, "nontrivial": 0, "traces": 0, "samples": [], "violations": [], "notes": [],
           "exhaustive": not simulate}
    if scale != 1:
        res["notes"].append("every slice slot of the specification stands for %d consecutive slots of the implementation" % scale)
    if not st["ok"]:
        raise ToolError("TLC did not complete on %s (%s): the specification itself is inconsistent or TLC failed; "
                        "see %s" % (name, st["error"], out))
    prog = os.path.join(wd, name + ".progress")
    summ = os.path.join(wd, name + ".replay.json")
    for p in (prog, summ):
        if os.path.exists(p):
            os.remove(p)
    t0 = time.time()
    relevant = set(cats) if cats else RELEVANT.get(prop)
    cats = ",".join(sorted(relevant if relevant is not None else {"*"})) or "*"
    # scale: every slice slot of the specification stands for `scale` consecutive slots of the implementation
    r = subprocess.run([exe, "replay", family, out, str(nslots), prog, summ, "40", cats], cwd=wd,
                       env=dict(os.environ, TVH_LEN_SCALE=str(scale)),
                       stdout=subprocess.PIPE, stderr=subprocess.STDOUT, text=True, timeout=3600)
    res["replay_wall_s"] = round(time.time() - t0, 1)
    if r.returncode not in (0, 1) or not os.path.exists(summ):
        # the implementation crashed under a behaviour: that behaviour is the counterexample
        line_no = None
        if os.path.exists(prog):
            try:
                line_no = int(open(prog).read().strip())
            except ValueError:
                pass
        if r.returncode == 2 or line_no is None:
            raise ToolError("harness failed on %s: exit %s\n%s" % (name, r.returncode, r.stdout[-2000:]))
        # discrepancies recorded before the crash come first: an earlier behaviour may be what corrupted the heap
        if os.path.exists(summ + ".viol"):
            for l in open(summ + ".viol"):
                try:
                    v = json.loads(l)
                except ValueError:
                    continue
                rel, other, tool = split_errors(prop, v["errors"], relevant)
                if rel:
                    res["violations"].append({"stage": name, "family": family, "nslots": nslots, "scale": scale, "h": v["h"], "x": v["x"], "errors": rel})
        beh = nth_behaviour(out, line_no)
        res["violations"].append({"stage": name, "family": family, "nslots": nslots, "scale": scale, "h": beh["h"], "x": beh["x"],
                                  "errors": ["[crash] the process died (exit %s) while replaying this behaviour (or as a late effect of an earlier one)" % r.returncode]})
        res["evaluations"] = line_no
        return res
    s = json.load(open(summ))
    res["evaluations"] = s["replayed"]
    res["traces"] = s["replayed"]
    res["nontrivial"] = s["nontrivial"]
    res["samples"] = s["samples"][:2]
    res["last_op_histogram"] = s["last_op_histogram"]
    res["skipped_aborted"] = s.get("skipped_aborted", 0)
    for v in s["violations"]:
        rel, other, tool = split_errors(prop, v["errors"], relevant)
        if tool:
            # once the implementation has left the specification's path, later behaviours with the same prefix can
            # drive the interpreter into states it has no handle for: that is a consequence, not a tool failure
            if res["violations"]:
                continue
            raise ToolError("harness reported an internal error on %s: %s" % (name, tool[:3]))
        if rel:
            res["violations"].append({"stage": name, "family": family, "nslots": nslots, "scale": scale, "h": v["h"], "x": v["x"], "errors": rel,
                                      "other": other})
        elif other and relevant is RELEVANT.get(prop):
            # (a stage with its own category list compares only what its payloads can report: no notes about the rest)
            hint = sorted({OWNER_HINT.get(e[1:e.index("]")], "?") for e in other})
            res["notes"].append("divergence outside %s (owned by %s): %s" % (prop, ",".join(hint), other[0]))
    # shortest counterexample first
    res["violations"].sort(key=lambda v: len(v["h"]))
    return res


def nth_behaviour(out, n):
    i = 0
    with open(out, errors="replace") as f:
        for line in f:
            if line.startswith("<<\"BEH\""):
                i += 1
                if i == n:
                    body = line.rstrip()[len("<<\"BEH\", \""):-len("\">>")].replace("\\\"", "\"")
                    return json.loads(body)
    raise ToolError("behaviour %d not found in %s" % (n, out))


def replay_graph_violation(prop, v):
    """re-execute one stored behaviour (./check Cxx --replay file)"""
    wd = workdir(prop)
    exe = build_harness("a")
    p = os.path.join(wd, "single.out")
    body = json.dumps({"h": v["h"], "x": v["x"]}, separators=(",", ":")).replace("\"", "\\\"")
    with open(p, "w") as f:
        f.write("<<\"BEH\", \"%s\">>\n" % body)
    summ = os.path.join(wd, "single.json")
    r = subprocess.run([exe, "replay", v["family"], p, str(v["nslots"]), os.path.join(wd, "single.progress"), summ, "5"],
                       cwd=wd, env=dict(os.environ, TVH_LEN_SCALE=str(v.get("scale", 1))), stdout=subprocess.PIPE, stderr=subprocess.STDOUT, text=True)
    if r.returncode not in (0, 1):
        return ["[crash] exit %s" % r.returncode]
    s = json.load(open(summ))
    errs = []
    for x in s["violations"]:
        errs += x["errors"]
    return errs
