#!/bin/sh
# run every claimed check at the given tier (default quick), sequentially; summary at the end
cd "$(dirname "$0")/.."
TIER=${1:-quick}
mkdir -p work
: > work/run_all_$TIER.log
for p in $(python3 -c "import json;print(' '.join(c['property_id'] for c in json.load(open('MANIFEST.json'))['checks']))"); do
  s=$(date +%s)
  ./check $p --tier $TIER > work/run_$p_$TIER.out 2>&1; rc=$?
  cp work/run_$p_$TIER.out work/run_${p}_$TIER.out 2>/dev/null
  echo "$p exit=$rc $(( $(date +%s) - s ))s $(grep -c '^VIOLATION' work/run_${p}_$TIER.out) violation(s) $(grep -c '^KNOWN-FINDING' work/run_${p}_$TIER.out) known" | tee -a work/run_all_$TIER.log
done
