"""Inductive-invariant stage (Apalache): the reduced core CountInd.tla is proved inductive, i.e. the count
word equals the number of owning handles (and no handle dangles) in every reachable state of ANY depth,
for the given numbers of slots and blocks, rather than enumerated."""
import os, re, subprocess, shutil, time
from vlib import *


def ind_stage(prop, tier, name):
    wd = os.path.join(workdir(prop), "apalache")
    os.makedirs(wd, exist_ok=True)
    shutil.copy(os.path.join(SPEC, "CountInd.tla"), os.path.join(wd, "CountInd.tla"))
    res = {"name": name, "states": 0, "transitions": 0, "evaluations": 0, "nontrivial": 0, "traces": 0, "samples": [],
           "violations": [], "notes": [], "exhaustive": True, "detail": {}}
    cmds = [("base: Init => IndInv", ["--init=Init", "--inv=IndInv", "--length=0"]),
            ("step: IndInv /\\ Next => IndInv'", ["--init=IndInv", "--inv=IndInv", "--length=1"]),
            ("IndInv => CountAccurate", ["--init=IndInv", "--inv=CountAccurate", "--length=0"]),
            ("IndInv => NoDangling", ["--init=IndInv", "--inv=NoDangling", "--length=0"])]
    t0 = time.time()
    done = 0
    for what, args in cmds:
        try:
            r = sh(["apalache-mc", "check", "--cinit=ConstInit"] + args + ["--out-dir=" + os.path.join(wd, "out"), "CountInd.tla"], cwd=wd, timeout=1500)
        except subprocess.TimeoutExpired:
            raise ToolError("apalache timed out on '%s'" % what)
        if "The outcome is: NoError" in r.stdout:
            done += 1
            continue
        if "The outcome is: Error" in r.stdout or "violat" in r.stdout:
            raise ToolError("CountInd.tla: obligation '%s' does not hold: the reduced core is not inductive (specification defect): %s" % (what, r.stdout[-400:]))
        raise ToolError("apalache failed on '%s': %s" % (what, r.stdout[-400:]))
    shutil.rmtree(os.path.join(wd, "out"), ignore_errors=True)
    res["evaluations"] = done
    res["nontrivial"] = done
    res["states"] = 1
    res["transitions"] = 1
    res["detail"] = {"obligations": [c[0] for c in cmds], "discharged": done, "wall_s": round(time.time() - t0, 1),
                     "constants": "Slots = 1..4, Blocks = 1..3"}
    res["samples"] = [{"obligation": c[0], "apalache_args": c[1]} for c in cmds]
    res["rule"] = "four proof obligations of the inductive invariant of CountInd.tla, discharged symbolically by Apalache (no enumeration of behaviours)"
    return res
