#!/usr/bin/env python3
"""Rewrite the 'Measured on the last quick run:' lines of DESIGN.md (section 6) from evidence/<id>.json."""
import json, os, re, sys

VERIF = os.path.dirname(os.path.dirname(os.path.abspath(__file__)))


def line_for(pid):
    p = os.path.join(VERIF, "evidence", pid + ".json")
    if not os.path.exists(p):
        return None
    e = json.load(open(p))
    parts = []
    for s in e["coverage"].get("stages", []):
        parts.append("`%s`: %d states / %d transitions, %d cases run on the implementation"
                     % (s["name"], s.get("states", 0), s.get("transitions", 0), s.get("evaluations", 0)))
    return "Measured on the last %s run (%.0f s): %s." % (e.get("tier", "quick"), e.get("wall_s", 0), "; ".join(parts))


def stages_for(pid):
    sys.path.insert(0, os.path.join(VERIF, "tools"))
    import props
    if pid not in props.PROPS:
        return None
    q = [f.__name__ for f in props.PROPS[pid]["stages"]("quick", 1)]
    t = [f.__name__ for f in props.PROPS[pid]["stages"]("thorough", 1)]
    return "Stages (generated from tools/props.py): quick = %s; thorough = %s." % (", ".join("`%s`" % x for x in q), ", ".join("`%s`" % x for x in t))


def main():
    path = os.path.join(VERIF, "DESIGN.md")
    lines = [l for l in open(path).read().split("\n") if not l.startswith("Stages (generated from tools/props.py)")]
    cur = None
    n = 0
    out = []
    for l in lines:
        m = re.match(r"### (C\d\d) ", l)
        if m:
            cur = m.group(1)
        if cur and l.startswith("Measured on the last "):
            new = line_for(cur)
            if new:
                l = new
                n += 1
            out.append(l)
            st = stages_for(cur)
            if st:
                out.append(st)
            continue
        out.append(l)
    open(path, "w").write("\n".join(out))
    print("rewrote %d line(s)" % n)


if __name__ == "__main__":
    sys.exit(main())
