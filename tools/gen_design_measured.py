#!/usr/bin/env python3
"""Rewrite the 'Measured on the last quick run:' lines of DESIGN.md (section 6) from evidence/<id>.json."""
import json, os, re, sys

VERIF = os.path.dirname(os.path.dirname(os.path.abspath(__file__)))


def line_for(pid):
    p = os.path.join(VERIF, "evidence", pid + ".json")
    if not os.path.exists(p):
        return None
    e = json.load(open(p))
    parts = []
    for s in e["coverage"].get("stages", []):
        parts.append("`%s`: %d states / %d transitions, %d cases run on the implementation"
                     % (s["name"], s.get("states", 0), s.get("transitions", 0), s.get("evaluations", 0)))
    return "Measured on the last %s run (%.0f s): %s." % (e.get("tier", "quick"), e.get("wall_s", 0), "; ".join(parts))


def main():
    path = os.path.join(VERIF, "DESIGN.md")
    lines = open(path).read().split("\n")
    cur = None
    n = 0
    for i, l in enumerate(lines):
        m = re.match(r"### (C\d\d) ", l)
        if m:
            cur = m.group(1)
        if cur and l.startswith("Measured on the last "):
            new = line_for(cur)
            if new:
                lines[i] = new
                n += 1
    open(path, "w").write("\n".join(lines))
    print("rewrote %d line(s)" % n)


if __name__ == "__main__":
    sys.exit(main())
