#!/usr/bin/env python3
"""Apply each behaviour-preserving variant under seeded/equivalent/ to /repo, run every claimed quick check,
and require that none of them raises an alarm (exit 0, no VIOLATION line). Undo the change straight afterwards."""
import json, os, subprocess, sys, glob, re, time

VERIF = os.path.dirname(os.path.dirname(os.path.abspath(__file__)))
REPO = os.environ.get("REPO_DIR", "/repo")


def main():
    only = sys.argv[1:]
    st = subprocess.run(["git", "-C", REPO, "status", "--porcelain", "--untracked-files=no"], stdout=subprocess.PIPE, text=True).stdout.strip()
    if st:
        print("refusing: /repo has uncommitted changes")
        return 2
    props = [c["property_id"] for c in json.load(open(os.path.join(VERIF, "MANIFEST.json")))["checks"]]
    out = {}
    # variants that do change one property (see seeded/equivalent/README.md): an alarm of that check is right
    exc = json.load(open(os.path.join(VERIF, "seeded", "equivalent", "except.json")))
    for d in sorted(glob.glob(os.path.join(VERIF, "seeded", "equivalent", "*.diff"))):
        name = os.path.basename(d)[:-5]
        if only and not any(o in name for o in only):
            continue
        if subprocess.run(["git", "-C", REPO, "apply", d]).returncode != 0:
            print(name, "does not apply")
            continue
        res = {}
        try:
            for p in props:
                t0 = time.time()
                r = subprocess.run([os.path.join(VERIF, "check"), p, "--tier", "quick"], cwd=VERIF, stdout=subprocess.PIPE, stderr=subprocess.STDOUT, text=True)
                viol = re.findall(r"^VIOLATION property=(\S+) replay=(\S+)", r.stdout, re.M)
                for _, path in viol:
                    if os.path.exists(path):
                        os.remove(path)
                res[p] = {"exit": r.returncode, "violations": len(viol), "wall_s": round(time.time() - t0, 1),
                          "first": (re.search(r"^VIOLATION.*\n(    .*)", r.stdout, re.M) or [None, ""])[1].strip()[:300] if viol else
                                   (re.search(r"^TOOL-ERROR.*", r.stdout, re.M) or [""])[0][:300]}
        finally:
            subprocess.run(["git", "-C", REPO, "checkout", "--", "."])
        out[name] = res
        alarms = {p: v for p, v in res.items() if v["exit"] != 0 and p not in exc.get(name, [])}
        print(name, "ALARMS: %s" % alarms if alarms else "quiet on all %d checks" % len(res), flush=True)
        json.dump(out, open(os.path.join(VERIF, "work", "equivalents.json"), "w"), indent=1)
    return 0


if __name__ == "__main__":
    sys.exit(main())
