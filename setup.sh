#!/bin/sh
# Build the conformance harness (every configuration the checks use) from files on disk only.
set -e
cd "$(dirname "$0")/harness"
export CARGO_NET_OFFLINE=true
cargo build --release --offline --target-dir target/cfg_a --features cfg_a
cargo build --release --offline --target-dir target/cfg_a -p tvm
cargo build --release --offline --target-dir target/cfg_b --no-default-features --features cfg_b
# payloads without drop glue; the crate unoptimised with debug assertions and overflow checks on (the dev profile)
cargo build --release --offline --target-dir target/cfg_p --features cfg_a,plain_payloads
CARGO_PROFILE_RELEASE_DEBUG_ASSERTIONS=true CARGO_PROFILE_RELEASE_OVERFLOW_CHECKS=true CARGO_PROFILE_RELEASE_OPT_LEVEL=0 cargo build --release --offline --target-dir target/cfg_d --features cfg_a
mkdir -p ../work ../replays ../evidence
echo setup ok
