#!/bin/sh
# Build the conformance harness (both feature configurations of triomphe) from files on disk only.
set -e
cd "$(dirname "$0")/harness"
export CARGO_NET_OFFLINE=true
cargo build --release --offline --target-dir target/cfg_a --features cfg_a
cargo build --release --offline --target-dir target/cfg_a -p tvm
cargo build --release --offline --target-dir target/cfg_b --no-default-features --features cfg_b
mkdir -p ../work ../replays ../evidence
echo setup ok
