//! Protocol extraction for ArcMM: run every entry point that touches a count with the tracer on
//! and report the sequence of count operations (with their orderings), destructor runs and
//! deallocations it performs. The specification's protocol constants are generated from this,
//! so the model that TLC checks is the protocol the code actually runs.

use crate::alloc;
use crate::ev::{self, Ev};
use crate::payload::{Pay, Probe, A, B};
use serde_json::{json, Value};
use std::convert::TryFrom;
use triomphe::{Arc, ArcBorrow, ArcUnion, HeaderWithLength, OffsetArc, ThinArc, UniqueArc};
use unsize::{CoerceUnsize, Coercion};

fn ord_name(o: u8) -> &'static str {
    ["rlx", "rel", "acq", "acqrel", "sc"][o.min(4) as usize]
}

thread_local! {
    static GRANTED: std::cell::Cell<bool> = const { std::cell::Cell::new(false) };
}
/// the call under extraction granted exclusive access (or handed the value out)
fn granted() {
    GRANTED.with(|g| g.set(true));
}

/// run f with tracking on; report the events that concern the block at `heap`
fn record(heap: usize, f: impl FnOnce()) -> Vec<Value> {
    ev::LOG.clear();
    GRANTED.with(|g| g.set(false));
    f();
    let mut out = vec![];
    // blocks allocated during the call: not yet visible to any other thread, so operations on their counts are
    // private steps of the calling thread (their effect is judged by the sequential replays, not by the schedule model)
    let mut fresh: Vec<(usize, usize)> = vec![];
    for e in ev::drain() {
        match e {
            Ev::Alloc { addr, size, .. } => fresh.push((addr, addr + size)),
            Ev::Atomic { cell, op, .. } if op != 6 && cell != heap && fresh.iter().any(|r| r.0 <= cell && cell < r.1) => {}
            Ev::Atomic { cell, op, operand, order, seen, .. } => {
                if cell != heap && op != 6 {
                    out.push(json!(["foreign", 0, "-", 0]));
                    continue;
                }
                let (k, d): (&str, i64) = match op {
                    0 => ("load", 0),
                    1 => ("store", operand as i64),
                    2 => ("rmw", operand as i64),
                    3 => ("rmw", -(operand as i64)),
                    4 => ("swap", operand as i64),
                    5 => ("cas", operand as i64),
                    _ => ("fence", 0),
                };
                out.push(json!([k, d, ord_name(order), seen as u64]));
            }
            Ev::Drop { .. } => out.push(json!(["destroy", 0, "-", 0])),
            Ev::BadDrop { .. } => out.push(json!(["baddrop", 0, "-", 0])),
            Ev::Dealloc { addr, .. } => {
                if addr == heap {
                    out.push(json!(["free", 0, "-", 0]))
                }
            }
            Ev::Clone { .. } => out.push(json!(["cloneval", 0, "-", 0])),
            _ => {}
        }
    }
    if GRANTED.with(|g| g.get()) {
        out.push(json!(["granted", 0, "-", 0]));
    }
    out
}

fn entry(list: &mut Vec<Value>, group: &str, name: &str, state: &str, events: Vec<Value>) {
    list.push(json!({"group": group, "name": name, "state": state, "events": events}));
}

type Thin = ThinArc<A, u32>;
type Fat = Arc<triomphe::HeaderSlice<triomphe::HeaderWithLength<A>, [u32]>>;
fn thin(v: u32) -> Thin {
    ThinArc::from_header_and_slice(A::mk(v), &[1u32, 2, 3])
}

pub fn run(out_path: &str) {
    let mut l: Vec<Value> = vec![];
    // everything below is allocated under tracking, so that deallocations are events
    alloc::track(true);
    unsafe {
        // ---------------------------------------------------------------- add one owner
        macro_rules! inc {
            ($name:expr, $mk:expr, $heap:expr, $clone:expr) => {{
                let h = $mk;
                let heap = $heap(&h);
                let mut c = None;
                let evs = record(heap, || c = Some($clone(&h)));
                entry(&mut l, "inc", $name, "-", evs);
                drop(c);
                drop(h);
            }};
        }
        inc!("Arc<A>::clone", Arc::new(A::mk(1)), |h: &Arc<A>| h.heap_ptr() as usize, |h: &Arc<A>| h.clone());
        inc!("Arc<B>::clone", Arc::new(B::mk(1)), |h: &Arc<B>| h.heap_ptr() as usize, |h: &Arc<B>| h.clone());
        inc!("Arc<dyn>::clone", Arc::new(A::mk(1)).unsize(Coercion!(to dyn Probe)), |h: &Arc<dyn Probe>| h.heap_ptr() as usize, |h: &Arc<dyn Probe>| h.clone());
        inc!("Arc<[T]>::clone", Arc::<[u32]>::from(vec![1u32, 2]), |h: &Arc<[u32]>| h.heap_ptr() as usize, |h: &Arc<[u32]>| h.clone());
        inc!("Arc<str>::clone", Arc::<str>::from("abc"), |h: &Arc<str>| h.heap_ptr() as usize, |h: &Arc<str>| h.clone());
        inc!("OffsetArc::clone", Arc::into_raw_offset(Arc::new(A::mk(1))), |h: &OffsetArc<A>| h.with_arc(|a| a.heap_ptr() as usize), |h: &OffsetArc<A>| h.clone());
        inc!("OffsetArc::clone_arc", Arc::into_raw_offset(Arc::new(A::mk(1))), |h: &OffsetArc<A>| h.with_arc(|a| a.heap_ptr() as usize), |h: &OffsetArc<A>| h.clone_arc());
        inc!("ArcBorrow::clone_arc", Arc::new(A::mk(1)), |h: &Arc<A>| h.heap_ptr() as usize, |h: &Arc<A>| h.borrow_arc().clone_arc());
        inc!("ArcUnion(first)::clone", ArcUnion::<A, B>::from_first(Arc::new(A::mk(1))), |h: &ArcUnion<A, B>| h.as_first().unwrap().with_arc(|a| a.heap_ptr() as usize), |h: &ArcUnion<A, B>| h.clone());
        inc!("ArcUnion(second)::clone", ArcUnion::<A, B>::from_second(Arc::new(B::mk(1))), |h: &ArcUnion<A, B>| h.as_second().unwrap().with_arc(|a| a.heap_ptr() as usize), |h: &ArcUnion<A, B>| h.clone());
        inc!("clone inside OffsetArc::with_arc", Arc::into_raw_offset(Arc::new(A::mk(1))), |h: &OffsetArc<A>| h.with_arc(|a| a.heap_ptr() as usize), |h: &OffsetArc<A>| h.with_arc(|a| a.clone()));
        inc!("clone inside Arc::with_raw_offset_arc", Arc::new(A::mk(1)), |h: &Arc<A>| h.heap_ptr() as usize, |h: &Arc<A>| h.with_raw_offset_arc(|o| o.clone()));
        inc!("ThinArc::clone", thin(1), |h: &Thin| h.heap_ptr() as usize, |h: &Thin| h.clone());
        inc!("clone inside ThinArc::with_arc", thin(1), |h: &Thin| h.heap_ptr() as usize, |h: &Thin| h.with_arc(|a| a.clone()));

        // the arc-swap glue (RefCnt::inc = clone + into_ptr) and the fat header-slice handle
        {
            use arc_swap::RefCnt;
            inc!("RefCnt::inc(Arc)", Arc::new(A::mk(1)), |h: &Arc<A>| h.heap_ptr() as usize, |h: &Arc<A>| <Arc<A> as RefCnt>::from_ptr(<Arc<A> as RefCnt>::inc(h)));
            inc!("RefCnt::inc(ThinArc)", thin(1), |h: &Thin| h.heap_ptr() as usize, |h: &Thin| <Thin as RefCnt>::from_ptr(<Thin as RefCnt>::inc(h)));
            inc!("Arc<HeaderSlice>::clone", Arc::from_thin(thin(1)), |h: &Fat| h.heap_ptr() as usize, |h: &Fat| h.clone());
        }

        // ---------------------------------------------------------------- give up one owner
        macro_rules! dec {
            ($name:expr, $mk:expr, $heap:expr, $clone:expr) => {{
                // shared: another owner remains
                let h = $mk;
                let heap = $heap(&h);
                let keep = $clone(&h);
                let evs = record(heap, move || drop(h));
                entry(&mut l, "dec", $name, "shared", evs);
                // last owner
                let evs = record(heap, move || drop(keep));
                entry(&mut l, "dec", $name, "last", evs);
            }};
        }
        dec!("Arc<A>::drop", Arc::new(A::mk(1)), |h: &Arc<A>| h.heap_ptr() as usize, |h: &Arc<A>| h.clone());
        dec!("Arc<B>::drop", Arc::new(B::mk(1)), |h: &Arc<B>| h.heap_ptr() as usize, |h: &Arc<B>| h.clone());
        dec!("Arc<dyn>::drop", Arc::new(A::mk(1)).unsize(Coercion!(to dyn Probe)), |h: &Arc<dyn Probe>| h.heap_ptr() as usize, |h: &Arc<dyn Probe>| h.clone());
        dec!("OffsetArc::drop", Arc::into_raw_offset(Arc::new(A::mk(1))), |h: &OffsetArc<A>| h.with_arc(|a| a.heap_ptr() as usize), |h: &OffsetArc<A>| h.clone());
        dec!("ArcUnion(first)::drop", ArcUnion::<A, B>::from_first(Arc::new(A::mk(1))), |h: &ArcUnion<A, B>| h.as_first().unwrap().with_arc(|a| a.heap_ptr() as usize), |h: &ArcUnion<A, B>| h.clone());
        dec!("ArcUnion(second)::drop", ArcUnion::<A, B>::from_second(Arc::new(B::mk(1))), |h: &ArcUnion<A, B>| h.as_second().unwrap().with_arc(|a| a.heap_ptr() as usize), |h: &ArcUnion<A, B>| h.clone());
        dec!("ThinArc::drop", thin(1), |h: &Thin| h.heap_ptr() as usize, |h: &Thin| h.clone());
        dec!("UniqueArc::drop / shareable", UniqueArc::new(A::mk(1)).shareable(), |h: &Arc<A>| h.heap_ptr() as usize, |h: &Arc<A>| h.clone());
        {
            use arc_swap::RefCnt;
            macro_rules! decp {
                ($name:expr, $t:ty, $mk:expr) => {{
                    let h: $t = $mk;
                    let heap = h.heap_ptr() as usize;
                    let keep = h.clone();
                    let evs = record(heap, move || <$t as RefCnt>::dec(<$t as RefCnt>::into_ptr(h)));
                    entry(&mut l, "dec", $name, "shared", evs);
                    let evs = record(heap, move || <$t as RefCnt>::dec(<$t as RefCnt>::into_ptr(keep)));
                    entry(&mut l, "dec", $name, "last", evs);
                }};
            }
            decp!("RefCnt::dec(Arc)", Arc<A>, Arc::new(A::mk(1)));
            decp!("RefCnt::dec(ThinArc)", Thin, thin(1));
            dec!("Arc<HeaderSlice>::drop", Arc::from_thin(thin(1)), |h: &Fat| h.heap_ptr() as usize, |h: &Fat| h.clone());
        }
        {
            // Arc<[T]> with droppable elements
            let h: Arc<[A]> = Arc::from(vec![A::mk(1)]);
            let heap = h.heap_ptr() as usize;
            let keep = h.clone();
            let evs = record(heap, move || drop(h));
            entry(&mut l, "dec", "Arc<[T]>::drop", "shared", evs);
            let evs = record(heap, move || drop(keep));
            entry(&mut l, "dec", "Arc<[T]>::drop", "last", evs);
        }

        // ---------------------------------------------------------------- am I the only owner
        macro_rules! uniq {
            ($api:expr, $name:expr, $run:expr) => {{
                for shared in [false, true] {
                    let h = Arc::new(A::mk(1));
                    let heap = h.heap_ptr() as usize;
                    let other = if shared { Some(h.clone()) } else { None };
                    let mut keep: Vec<Box<dyn std::any::Any>> = vec![];
                    let evs = record(heap, || $run(h, &mut keep));
                    entry(&mut l, $api, $name, if shared { "shared" } else { "unique" }, evs);
                    drop(keep);
                    drop(other);
                }
            }};
        }
        type Keep = Vec<Box<dyn std::any::Any>>;
        uniq!("uniq:get_mut", "Arc::is_unique", |h: Arc<A>, k: &mut Keep| {
            let _ = h.is_unique();
            k.push(Box::new(h));
        });
        uniq!("uniq:get_mut", "Arc::get_mut", |mut h: Arc<A>, k: &mut Keep| {
            if let Some(r) = Arc::get_mut(&mut h) {
                r.set_val(9);
                granted();
            }
            k.push(Box::new(h));
        });
        uniq!("uniq:get_mut", "Arc::get_unique", |mut h: Arc<A>, k: &mut Keep| {
            if let Some(r) = Arc::get_unique(&mut h) {
                (**r).set_val(9);
                granted();
            }
            k.push(Box::new(h));
        });
        uniq!("uniq:get_mut", "Arc::try_unique", |h: Arc<A>, k: &mut Keep| match Arc::try_unique(h) {
            Ok(mut u) => {
                (*u).set_val(9);
                granted();
                k.push(Box::new(u));
            }
            Err(a) => k.push(Box::new(a)),
        });
        uniq!("uniq:get_mut", "UniqueArc::try_from", |h: Arc<A>, k: &mut Keep| match UniqueArc::try_from(h) {
            Ok(mut u) => {
                (*u).set_val(9);
                granted();
                k.push(Box::new(u));
            }
            Err(a) => k.push(Box::new(a)),
        });
        uniq!("uniq:get_mut", "Arc<dyn>::get_mut", |h: Arc<A>, k: &mut Keep| {
            let mut d: Arc<dyn Probe> = h.unsize(Coercion!(to dyn Probe));
            if let Some(r) = Arc::get_mut(&mut d) {
                r.pset(9);
                granted();
            }
            k.push(Box::new(d));
        });
        uniq!("uniq:try_unwrap", "Arc::try_unwrap", |h: Arc<A>, k: &mut Keep| match Arc::try_unwrap(h) {
            Ok(v) => {
                granted();
                k.push(Box::new(v))
            }
            Err(a) => k.push(Box::new(a)),
        });
        uniq!("uniq:make_mut", "Arc::make_mut", |mut h: Arc<A>, k: &mut Keep| {
            Arc::make_mut(&mut h).set_val(9);
            k.push(Box::new(h));
        });
        uniq!("uniq:make_mut", "Arc::make_unique", |mut h: Arc<A>, k: &mut Keep| {
            (**Arc::make_unique(&mut h)).set_val(9);
            k.push(Box::new(h));
        });
        uniq!("uniq:make_mut", "OffsetArc::make_mut", |h: Arc<A>, k: &mut Keep| {
            let mut o = Arc::into_raw_offset(h);
            o.make_mut().set_val(9);
            k.push(Box::new(o));
        });
        uniq!("uniq:unwrap_or_clone", "Arc::unwrap_or_clone", |h: Arc<A>, k: &mut Keep| {
            k.push(Box::new(Arc::unwrap_or_clone(h)));
        });
        // shared when asked, but the only other owner goes away while the payload is being cloned: the
        // call's own release of its handle is then the LAST one and must follow the last-owner protocol
        for api in ["Arc::make_mut", "Arc::make_unique", "OffsetArc::make_mut", "Arc::unwrap_or_clone"] {
            let h = Arc::new(A::mk(1));
            let heap = h.heap_ptr() as usize;
            let other = h.clone();
            crate::payload::CLONE_HOOK.with(|c| *c.borrow_mut() = Some(Box::new(move || drop(other))));
            let mut keep: Vec<Box<dyn std::any::Any>> = vec![];
            let evs = record(heap, || match api {
                "Arc::make_mut" => {
                    let mut h = h;
                    Arc::make_mut(&mut h).set_val(9);
                    keep.push(Box::new(h));
                }
                "Arc::make_unique" => {
                    let mut h = h;
                    (**Arc::make_unique(&mut h)).set_val(9);
                    keep.push(Box::new(h));
                }
                "OffsetArc::make_mut" => {
                    let mut o = Arc::into_raw_offset(h);
                    o.make_mut().set_val(9);
                    keep.push(Box::new(o));
                }
                _ => keep.push(Box::new(Arc::unwrap_or_clone(h))),
            });
            crate::payload::CLONE_HOOK.with(|c| *c.borrow_mut() = None);
            let g = if api.ends_with("unwrap_or_clone") { "uniq:unwrap_or_clone" } else { "uniq:make_mut" };
            entry(&mut l, g, api, "shared_then_last", evs);
            drop(keep);
        }
        // through a ThinArc: with_arc_mut + get_mut
        for shared in [false, true] {
            let mut t = thin(1);
            let heap = t.heap_ptr() as usize;
            let other = if shared { Some(t.clone()) } else { None };
            let evs = record(heap, || {
                t.with_arc_mut(|a| {
                    if let Some(r) = Arc::get_mut(a) {
                        r.header_mut().set_val(9);
                        granted();
                    }
                })
            });
            entry(&mut l, "uniq:get_mut", "ThinArc::with_arc_mut + Arc::get_mut", if shared { "shared" } else { "unique" }, evs);
            drop(other);
            drop(t);
        }
        // the deprecated mutators of Arc<MaybeUninit<..>> are uniqueness gates too
        #[allow(deprecated)]
        for shared in [false, true] {
            let mut h: Arc<std::mem::MaybeUninit<u32>> = Arc::new_uninit();
            let heap = h.heap_ptr() as usize;
            let other = if shared { Some(h.clone()) } else { None };
            let evs = record(heap, || {
                let _ = std::panic::catch_unwind(std::panic::AssertUnwindSafe(|| {
                    h.write(5);
                    granted();
                }));
            });
            entry(&mut l, "uniq:get_mut", "Arc<MaybeUninit<T>>::write (deprecated)", if shared { "shared" } else { "unique" }, evs);
            drop(other);
            let mut s_: Arc<[std::mem::MaybeUninit<u32>]> = Arc::new_uninit_slice(2);
            let heap = s_.heap_ptr() as usize;
            let other = if shared { Some(s_.clone()) } else { None };
            let evs = record(heap, || {
                let _ = std::panic::catch_unwind(std::panic::AssertUnwindSafe(|| {
                    s_.as_mut_slice()[0].write(5);
                    granted();
                }));
            });
            entry(&mut l, "uniq:get_mut", "Arc<[MaybeUninit<T>]>::as_mut_slice (deprecated)", if shared { "shared" } else { "unique" }, evs);
            drop(other);
        }
        // observers that read the count
        {
            let h = Arc::new(A::mk(1));
            let heap = h.heap_ptr() as usize;
            entry(&mut l, "observe", "Arc::strong_count", "-", record(heap, || { let _ = Arc::strong_count(&h); }));
            entry(&mut l, "observe", "Arc::count", "-", record(heap, || { let _ = Arc::count(&h); }));
            let b: ArcBorrow<'_, A> = h.borrow_arc();
            entry(&mut l, "observe", "ArcBorrow::strong_count", "-", record(heap, || { let _ = ArcBorrow::strong_count(&b); }));
        }
        let _ = HeaderWithLength::new(0u8, 0);
    }
    alloc::track(false);
    // (no reset: `l` itself lives in tracked memory; the process ends here)
    std::fs::write(out_path, serde_json::to_string_pretty(&Value::Array(l)).unwrap()).unwrap();
}
