//! Comparison / ordering / hashing / formatting of handles (C14). The reference answers come from the
//! table TLC evaluates from `Compare.tla` (what the VALUES answer: header, then slice, then recorded
//! length); every handle kind must answer what the values answer.

use serde_json::{json, Value};
use std::cmp::Ordering;
use std::collections::hash_map::DefaultHasher;
use std::collections::{BTreeMap, HashMap};
use std::fmt::Debug;
use std::hash::{Hash, Hasher};
use triomphe::{Arc, ArcBorrow, ArcUnion, HeaderSlice, HeaderWithLength, OffsetArc, ThinArc};

pub trait Letter: Copy + PartialEq + PartialOrd + Debug + 'static {
    fn of(n: u64) -> Self;
    const TOTAL: bool;
    /// the carrier has an order at all (the equality-only carrier answers None to every comparison)
    const ORDERED: bool = true;
    fn h(&self) -> Option<u64>;
}
impl Letter for u8 {
    fn of(n: u64) -> u8 {
        n as u8
    }
    const TOTAL: bool = true;
    fn h(&self) -> Option<u64> {
        let mut s = DefaultHasher::new();
        Hash::hash(self, &mut s);
        Some(s.finish())
    }
}
impl Letter for f32 {
    fn of(n: u64) -> f32 {
        if n == 9 {
            f32::NAN
        } else {
            n as f32
        }
    }
    const TOTAL: bool = false;
    fn h(&self) -> Option<u64> {
        None
    }
}
/// equality only, no order at all
#[derive(Clone, Copy, Debug, PartialEq)]
pub struct Refl(u8);
impl PartialOrd for Refl {
    fn partial_cmp(&self, _: &Refl) -> Option<Ordering> {
        None
    }
}
impl Letter for Refl {
    fn of(n: u64) -> Refl {
        Refl(n as u8)
    }
    const TOTAL: bool = false;
    const ORDERED: bool = false;
    fn h(&self) -> Option<u64> {
        None
    }
}

type Hsl<L> = HeaderSlice<HeaderWithLength<L>, [L]>;

fn code(o: Option<Ordering>) -> u64 {
    match o {
        Some(Ordering::Less) => 0,
        Some(Ordering::Equal) => 1,
        Some(Ordering::Greater) => 2,
        None => 3,
    }
}

struct Report {
    errs: Vec<(String, String)>, // (key, message)
    evals: usize,
}
impl Report {
    fn bad(&mut self, key: &str, msg: String) {
        if self.errs.iter().filter(|e| e.0 == key).count() < 3 {
            self.errs.push((key.to_string(), msg));
        }
    }
}

fn letters<L: Letter>(v: &Value) -> Vec<L> {
    v.as_array().map(|a| a.iter().map(|x| L::of(x.as_u64().unwrap_or(0))).collect()).unwrap_or_default()
}

/// the relational operators of a pair must be the ones `partial_cmp` implies, `!=` the negation of `==`
fn ops<T: PartialOrd + ?Sized>(a: &T, b: &T) -> (bool, bool, u64, [bool; 4]) {
    (a == b, a != b, code(a.partial_cmp(b)), [a < b, a <= b, a > b, a >= b])
}
fn implied(c: u64) -> [bool; 4] {
    [c == 0, c == 0 || c == 1, c == 2, c == 2 || c == 1]
}

fn row<L: Letter>(r: &Value, rep: &mut Report) {
    let (xh, xs, xrec) = (L::of(r[0].as_u64().unwrap()), letters::<L>(&r[1]), r[2].as_u64().unwrap() as usize);
    let (yh, ys, yrec) = (L::of(r[3].as_u64().unwrap()), letters::<L>(&r[4]), r[5].as_u64().unwrap() as usize);
    let (seq, scmp) = (r[6].as_u64().unwrap() == 1, r[7].as_u64().unwrap());
    let pair = format!("x=({:?},{:?},rec {}) y=({:?},{:?},rec {})", xh, xs, xrec, yh, ys, yrec);
    let ax: Arc<Hsl<L>> = Arc::from_header_and_slice(HeaderWithLength::new(xh, xrec), &xs);
    let ay: Arc<Hsl<L>> = Arc::from_header_and_slice(HeaderWithLength::new(yh, yrec), &ys);
    let (vx, vy): (&Hsl<L>, &Hsl<L>) = (&ax, &ay);
    rep.evals += 1;
    // ---- the values themselves against the specification
    let (veq, vne, vcmp, vrel) = ops(vx, vy);
    let recdiff = if xrec != yrec { " [recorded lengths differ]" } else { "" };
    if veq != seq {
        rep.bad(&format!("HeaderSlice ==: differs from header/slice/recorded-length equality{}", recdiff), format!("{}: == is {}, specification says {}", pair, veq, seq));
    }
    if vcmp != scmp {
        rep.bad(&format!("HeaderSlice partial_cmp: not header-then-slice(-then-recorded-length) order{}", recdiff), format!("{}: partial_cmp code {}, specification says {}", pair, vcmp, scmp));
    }
    if vne == veq {
        rep.bad("HeaderSlice !=: not the negation of ==", pair.clone());
    }
    if L::ORDERED && (vcmp == 1) != veq {
        rep.bad(&format!("HeaderSlice: == and partial_cmp disagree on equality{}", recdiff), format!("{}: == is {}, partial_cmp code {}", pair, veq, vcmp));
    }
    if vrel != implied(vcmp) {
        rep.bad("HeaderSlice <,<=,>,>=: not what partial_cmp implies", pair.clone());
    }
    // ---- Arc: see-through, distinct allocations
    let (aeq, ane, acmp, arel) = ops(&ax, &ay);
    if aeq != veq || ane != vne || acmp != vcmp || arel != vrel {
        rep.bad("Arc ==/!=/partial_cmp/<..: differs from the values (distinct allocations)", format!("{}: Arc gives ({},{},{},{:?}), values give ({},{},{},{:?})", pair, aeq, ane, acmp, arel, veq, vne, vcmp, vrel));
    }
    // ---- ThinArc, when publicly constructible (recorded length = slice length)
    if xrec == xs.len() && yrec == ys.len() {
        let tx: ThinArc<L, L> = ThinArc::from_header_and_slice(xh, &xs);
        let ty: ThinArc<L, L> = ThinArc::from_header_and_slice(yh, &ys);
        let (teq, tne, tcmp, trel) = ops(&tx, &ty);
        if teq != veq || tne != vne || tcmp != vcmp || trel != vrel {
            rep.bad("ThinArc ==/!=/partial_cmp/<..: differs from the values", format!("{}: ThinArc gives ({},{},{},{:?}), values give ({},{},{},{:?})", pair, teq, tne, tcmp, trel, veq, vne, vcmp, vrel));
        }
        if format!("{:?}", tx) != format!("{:?}", &*tx) {
            rep.bad("ThinArc Debug: differs from the value's", pair.clone());
        }
    }
    // ---- ArcBorrow
    let (bx, by): (ArcBorrow<'_, Hsl<L>>, ArcBorrow<'_, Hsl<L>>) = (ax.borrow_arc(), ay.borrow_arc());
    if (bx == by) != veq {
        rep.bad("ArcBorrow ==: equal values in distinct allocations compare unequal (pointer comparison)", format!("{}: ArcBorrow == is {}, values == is {}", pair, bx == by, veq));
    }
    if (bx != by) == (bx == by) {
        rep.bad("ArcBorrow !=: not the negation of ==", pair.clone());
    }
    if format!("{:?}", ax) != format!("{:?}", vx) {
        rep.bad("Arc Debug: differs from the value's", pair.clone());
    }
    if format!("{:?}", bx) != format!("{:?}", vx) {
        rep.bad("ArcBorrow Debug: prints the address, not the value", format!("{}: {:?}", pair, bx));
    }
}

/// sized payloads: OffsetArc, ArcUnion, ArcBorrow<Sized>, same-allocation cases, hashing, map keys
fn sized_rows<L: Letter>(rep: &mut Report) {
    let ls: Vec<u64> = if L::of(9) != L::of(9) { vec![1, 2, 9] } else { vec![1, 2, 3] };
    for &a in &ls {
        for &b in &ls {
            for &c in &ls {
                for &d in &ls {
                    let (sx, sy): ((L, L), (L, L)) = ((L::of(a), L::of(b)), (L::of(c), L::of(d)));
                    let pair = format!("x={:?} y={:?}", sx, sy);
                    rep.evals += 1;
                    let (veq, vne, vcmp, vrel) = ops(&sx, &sy);
                    let (ax, ay) = (Arc::new(sx), Arc::new(sy));
                    let (aeq, ane, acmp, arel) = ops(&ax, &ay);
                    if aeq != veq || ane != vne || acmp != vcmp || arel != vrel {
                        rep.bad("Arc<T> ==/!=/partial_cmp/<..: differs from the values (distinct allocations)", pair.clone());
                    }
                    let (ox, oy): (OffsetArc<(L, L)>, OffsetArc<(L, L)>) = (Arc::into_raw_offset(ax.clone()), Arc::into_raw_offset(ay.clone()));
                    if (ox == oy) != veq || (ox != oy) != vne {
                        rep.bad("OffsetArc ==/!=: differs from the values", pair.clone());
                    }
                    if format!("{:?}", ox) != format!("{:?}", sx) {
                        rep.bad("OffsetArc Debug: differs from the value's", pair.clone());
                    }
                    let (bx, by) = (ax.borrow_arc(), ay.borrow_arc());
                    if (bx == by) != veq {
                        rep.bad("ArcBorrow ==: equal values in distinct allocations compare unequal (pointer comparison)", format!("{}: ArcBorrow == is {}, values == is {}", pair, bx == by, veq));
                    }
                    let (ux, uy): (ArcUnion<(L, L), u8>, ArcUnion<(L, L), u8>) = (ArcUnion::from_first(ax.clone()), ArcUnion::from_first(ay.clone()));
                    if (ux == uy) != veq {
                        rep.bad("ArcUnion ==: equal values in distinct allocations compare unequal (pointer comparison)", format!("{}: ArcUnion == is {}, values == is {}", pair, ux == uy, veq));
                    }
                    if format!("{:?}", ux) != format!("First({:?})", sx) && format!("{:?}", ux) != format!("{:?}", sx) {
                        rep.bad("ArcUnion Debug: prints the address, not the value", format!("{}: {:?}", pair, ux));
                    }
                    let (wx, wy): (ArcUnion<u8, (L, L)>, ArcUnion<u8, (L, L)>) = (ArcUnion::from_second(ax.clone()), ArcUnion::from_second(ay.clone()));
                    if (wx == wy) != veq {
                        rep.bad("ArcUnion ==: equal values in distinct allocations compare unequal (pointer comparison)", format!("{} (second variant): ArcUnion == is {}, values == is {}", pair, wx == wy, veq));
                    }
                    // two unions holding different variants never compare equal, same allocation included
                    let (f, s): (ArcUnion<(L, L), (L, L)>, ArcUnion<(L, L), (L, L)>) = (ArcUnion::from_first(ax.clone()), ArcUnion::from_second(ax.clone()));
                    let (f2, s2): (ArcUnion<(L, L), (L, L)>, ArcUnion<(L, L), (L, L)>) = (ArcUnion::from_first(ax.clone()), ArcUnion::from_second(ay.clone()));
                    if f == s || s == f || f2 == s2 {
                        rep.bad("ArcUnion ==: unions holding different variants compare equal", pair.clone());
                    }
                    // clone_from makes the destination a copy of the source, variant included; the Debug output of a union
                    // names the variant it holds
                    {
                        let mut d = f.clone();
                        d.clone_from(&s);
                        if !d.is_second() || d != s || !ArcUnion::ptr_eq(&d, &s) {
                            rep.bad("ArcUnion clone_from: the destination is not a copy of the source (different variants of one allocation)", pair.clone());
                        }
                        let mut d = s2.clone();
                        d.clone_from(&f2);
                        if !d.is_first() || d != f2 {
                            rep.bad("ArcUnion clone_from: the destination is not a copy of the source (different variants)", pair.clone());
                        }
                        if format!("{:?}", s).starts_with("First") || format!("{:?}", f).starts_with("Second") {
                            rep.bad("ArcUnion Debug: names the wrong variant (different variants)", format!("{} : {:?} / {:?}", pair, f, s));
                        }
                    }
                    #[allow(clippy::nonminimal_bool)]
                    if !(f != s) || !(s != f) || !(f2 != s2) {
                        rep.bad("ArcUnion !=: unions holding different variants do not compare unequal", pair.clone());
                    }
                    // != is the negation of == for every handle kind, whatever == means for it
                    if (ux != uy) == (ux == uy) || (wx != wy) == (wx == wy) {
                        rep.bad("ArcUnion !=: not the negation of ==", pair.clone());
                    }
                    if (bx != by) == (bx == by) {
                        rep.bad("ArcBorrow !=: not the negation of ==", pair.clone());
                    }
                }
            }
            // ---- same allocation
            let sx: (L, L) = (L::of(a), L::of(b));
            let self_eq = sx == sx;
            let ax = Arc::new(sx);
            let ax2 = ax.clone();
            let (e, n, c, rel) = ops(&ax, &ax2);
            if e == n {
                rep.bad("Arc !=: not the negation of == (same allocation)", format!("{:?}", sx));
            }
            // only == / != may take the same-allocation shortcut: ordering answers as the value does
            let (_, _, vc, vrel) = ops(&sx, &sx);
            if c != vc || rel != vrel {
                rep.bad("Arc partial_cmp/<..: differs from the value's for two handles to one allocation", format!("{:?}: Arc gives ({},{:?}), the value gives ({},{:?})", sx, c, rel, vc, vrel));
            }
            {
                let t: ThinArc<L, L> = ThinArc::from_header_and_slice(L::of(a), &[L::of(b)]);
                let t2 = t.clone();
                let (_, _, tc, trel) = ops(&t, &t2);
                let (_, _, wc, wrel) = ops(&*t, &*t2);
                if tc != wc || trel != wrel {
                    rep.bad("ThinArc partial_cmp/<..: differs from the value's for two handles to one allocation", format!("{:?}: ThinArc gives ({},{:?}), the value gives ({},{:?})", sx, tc, trel, wc, wrel));
                }
            }
            if self_eq && !e {
                rep.bad("Arc ==: two handles to one allocation of a self-equal value compare unequal", format!("{:?}", sx));
            }
            let (o1, o2) = (Arc::into_raw_offset(ax.clone()), Arc::into_raw_offset(ax.clone()));
            if (o1 == o2) != self_eq {
                rep.bad("OffsetArc ==: differs from the values (same allocation)", format!("{:?}", sx));
            }
            if (o1 != o2) == (o1 == o2) {
                rep.bad("OffsetArc !=: not the negation of == (same allocation)", format!("{:?}", sx));
            }
            let (u1, u2): (ArcUnion<(L, L), u8>, ArcUnion<(L, L), u8>) = (ArcUnion::from_first(ax.clone()), ArcUnion::from_first(ax.clone()));
            if (u1 != u2) == (u1 == u2) {
                rep.bad("ArcUnion !=: not the negation of == (same allocation)", format!("{:?}", sx));
            }
            let (b1, b2) = (ax.borrow_arc(), ax2.borrow_arc());
            if (b1 != b2) == (b1 == b2) {
                rep.bad("ArcBorrow !=: not the negation of == (same allocation)", format!("{:?}", sx));
            }
        }
    }
}

/// formatting honours the caller's format options exactly as the value does
fn format_rows(rep: &mut Report) {
    #[derive(Debug, Clone, Copy, PartialEq)]
    struct Point {
        x: i32,
        y: [u8; 2],
    }
    let v = Point { x: -1, y: [2, 3] };
    let a = Arc::new(v);
    let o = Arc::into_raw_offset(a.clone());
    let f = Arc::new(1.5f64);
    let of = Arc::into_raw_offset(f.clone());
    let t: ThinArc<u16, u8> = ThinArc::from_header_and_slice(7, &[1, 2]);
    rep.evals += 1;
    macro_rules! same {
        ($fmt:literal) => {
            if format!($fmt, a) != format!($fmt, v) {
                rep.bad("Arc Debug: format options are not forwarded to the value", format!("{} gives {:?}", $fmt, format!($fmt, a)));
            }
            if format!($fmt, o) != format!($fmt, v) {
                rep.bad("OffsetArc Debug: format options are not forwarded to the value", format!("{} gives {:?}", $fmt, format!($fmt, o)));
            }
            if format!($fmt, f) != format!($fmt, 1.5f64) {
                rep.bad("Arc Debug: format options are not forwarded to the value", format!("{} on f64", $fmt));
            }
            if format!($fmt, of) != format!($fmt, 1.5f64) {
                rep.bad("OffsetArc Debug: format options are not forwarded to the value", format!("{} on f64", $fmt));
            }
            if format!($fmt, t) != format!($fmt, &*t) {
                rep.bad("ThinArc Debug: format options are not forwarded to the value", format!("{}", $fmt));
            }
        };
    }
    same!("{:?}");
    same!("{:#?}");
    same!("{:12?}");
    same!("{:<9?}");
    same!("{:.1?}");
    same!("{:+.3?}");
    macro_rules! disp {
        ($fmt:literal) => {
            if format!($fmt, f) != format!($fmt, 1.5f64) {
                rep.bad("Arc Display: format options are not forwarded to the value", format!("{}", $fmt));
            }
        };
    }
    disp!("{}");
    disp!("{:8.3}");
    disp!("{:+}");
    disp!("{:<6}");
}

/// records every call made to the hasher, with its bytes: "hashing gives the same answer as the value" for every
/// hasher means the handle feeds the hasher exactly what the value feeds it
#[derive(Default)]
struct RecHasher(Vec<(u8, Vec<u8>)>);
impl Hasher for RecHasher {
    fn finish(&self) -> u64 {
        0
    }
    fn write(&mut self, b: &[u8]) {
        self.0.push((0, b.to_vec()));
    }
    fn write_u8(&mut self, i: u8) {
        self.0.push((1, vec![i]));
    }
    fn write_u16(&mut self, i: u16) {
        self.0.push((2, i.to_ne_bytes().to_vec()));
    }
    fn write_u32(&mut self, i: u32) {
        self.0.push((4, i.to_ne_bytes().to_vec()));
    }
    fn write_u64(&mut self, i: u64) {
        self.0.push((8, i.to_ne_bytes().to_vec()));
    }
    fn write_usize(&mut self, i: usize) {
        self.0.push((9, i.to_ne_bytes().to_vec()));
    }
}
fn calls<T: Hash + ?Sized>(t: &T) -> Vec<(u8, Vec<u8>)> {
    let mut h = RecHasher::default();
    t.hash(&mut h);
    h.0
}

/// trait-object and unsized payloads whose equality relates values of different sizes
trait Shape {
    fn area(&self) -> u32;
}
struct Square(u32);
struct Rect(u32, u32, [u8; 24]);
impl Shape for Square {
    fn area(&self) -> u32 {
        self.0 * self.0
    }
}
impl Shape for Rect {
    fn area(&self) -> u32 {
        self.0 * self.1
    }
}
impl PartialEq for dyn Shape {
    fn eq(&self, o: &dyn Shape) -> bool {
        self.area() == o.area()
    }
}
impl PartialOrd for dyn Shape {
    fn partial_cmp(&self, o: &dyn Shape) -> Option<Ordering> {
        self.area().partial_cmp(&o.area())
    }
}
impl Hash for dyn Shape {
    fn hash<H: Hasher>(&self, h: &mut H) {
        self.area().hash(h)
    }
}
/// decimal digits compared by numeric value: "007" == "7"
#[repr(transparent)]
struct Num([u8]);
impl Num {
    fn val(&self) -> u64 {
        self.0.iter().fold(0, |a, d| a * 10 + (*d - b'0') as u64)
    }
    fn arc(s: &str) -> Arc<Num> {
        let a: Arc<[u8]> = Arc::from(s.as_bytes());
        unsafe { Arc::from_raw(Arc::into_raw(a) as *const Num) }
    }
}
impl PartialEq for Num {
    fn eq(&self, o: &Num) -> bool {
        self.val() == o.val()
    }
}
impl PartialOrd for Num {
    fn partial_cmp(&self, o: &Num) -> Option<Ordering> {
        self.val().partial_cmp(&o.val())
    }
}

/// Borrow / AsRef / Deref all name the value itself; Display and Pointer forward the caller's options
fn view_rows(rep: &mut Report) {
    use std::borrow::Borrow;
    macro_rules! views {
        ($what:expr, $t:ty, $a:expr) => {{
            rep.evals += 1;
            let a = $a;
            let d: *const $t = &*a;
            let b: *const $t = Borrow::<$t>::borrow(&a);
            let r: *const $t = AsRef::<$t>::as_ref(&a);
            if d != b || d != r || d != Arc::as_ptr(&a) {
                rep.bad(concat!("Borrow / AsRef / Deref / as_ptr of one handle name different addresses: ", $what), String::new());
            }
        }};
    }
    views!("Arc<u64>", u64, Arc::new(5u64));
    views!("Arc<()>", (), Arc::new(()));
    views!("Arc<[u16]>", [u16], Arc::<[u16]>::from(vec![1u16, 2, 3]));
    views!("Arc<str>", str, Arc::<str>::from("xyz"));
    views!("Arc<[u8; 0]>", [u8; 0], Arc::new([0u8; 0]));
    let s: Arc<str> = Arc::from("héllo");
    let f = Arc::new(2.5f32);
    rep.evals += 1;
    macro_rules! disp {
        ($fmt:literal) => {
            if format!($fmt, s) != format!($fmt, &*s) {
                rep.bad("Arc<str> Display: format options are not forwarded to the value", format!("{} gives {:?}", $fmt, format!($fmt, s)));
            }
            if format!($fmt, f) != format!($fmt, *f) {
                rep.bad("Arc<f32> Display: format options are not forwarded to the value", format!("{} gives {:?}", $fmt, format!($fmt, f)));
            }
        };
    }
    disp!("{}");
    disp!("{:>9}");
    disp!("{:*<8}");
    disp!("{:^7.3}");
    disp!("{:.1}");
    let a = Arc::new(7u32);
    let t: ThinArc<u8, u8> = ThinArc::from_header_and_slice(1, &[2]);
    for (h, want) in [(format!("{:p}", a), format!("{:p}", a.heap_ptr())), (format!("{:18p}", a), format!("{:18p}", a.heap_ptr())),
                      (format!("{:p}", t), format!("{:p}", t.heap_ptr())), (format!("{:<20p}", t), format!("{:<20p}", t.heap_ptr()))] {
        rep.evals += 1;
        if h != want {
            rep.bad("Pointer formatting of a handle is not the formatting of its block address", format!("{:?} vs {:?}", h, want));
        }
    }
}

/// handle types that have no Hash impl today: should one appear, it has to feed the hasher what the value feeds it
fn optional_hash_rows(rep: &mut Report) {
    struct P<T>(std::marker::PhantomData<T>);
    trait NoHash<T> {
        fn try_calls(&self, _v: &T) -> Option<Vec<(u8, Vec<u8>)>> {
            None
        }
    }
    impl<T> NoHash<T> for P<T> {}
    #[allow(dead_code)]
    impl<T: Hash> P<T> {
        fn try_calls(&self, v: &T) -> Option<Vec<(u8, Vec<u8>)>> {
            Some(calls(v))
        }
    }
    rep.evals += 1;
    let o = Arc::into_raw_offset(Arc::new((1u8, 2u32)));
    if let Some(c) = P::<OffsetArc<(u8, u32)>>(std::marker::PhantomData).try_calls(&o) {
        if c != calls(&*o) {
            rep.bad("Hash of a handle differs from the value's: OffsetArc", String::new());
        }
    }
    let a = Arc::new((1u8, 2u32));
    let b = a.borrow_arc();
    if let Some(c) = P::<ArcBorrow<'_, (u8, u32)>>(std::marker::PhantomData).try_calls(&b) {
        if c != calls(&*b) {
            rep.bad("Hash of a handle differs from the value's: ArcBorrow", String::new());
        }
    }
    let u: ArcUnion<(u8, u32), u8> = ArcUnion::from_first(a.clone());
    if let Some(c) = P::<ArcUnion<(u8, u32), u8>>(std::marker::PhantomData).try_calls(&u) {
        if c != calls(&*a) {
            rep.bad("Hash of a handle differs from the value's: ArcUnion", String::new());
        }
    }
    let q = triomphe::UniqueArc::new((1u8, 2u32));
    if let Some(c) = P::<triomphe::UniqueArc<(u8, u32)>>(std::marker::PhantomData).try_calls(&q) {
        if c != calls(&*q) {
            rep.bad("Hash of a handle differs from the value's: UniqueArc", String::new());
        }
    }
}

fn unsized_rows(rep: &mut Report) {
    use unsize::{CoerceUnsize, Coercion};
    let shapes: Vec<Arc<dyn Shape>> = vec![
        Arc::new(Square(4)).unsize(Coercion!(to dyn Shape)),
        Arc::new(Rect(2, 8, [0; 24])).unsize(Coercion!(to dyn Shape)),
        Arc::new(Rect(1, 16, [0; 24])).unsize(Coercion!(to dyn Shape)),
        Arc::new(Square(3)).unsize(Coercion!(to dyn Shape)),
        Arc::new(Rect(3, 3, [0; 24])).unsize(Coercion!(to dyn Shape)),
    ];
    for x in &shapes {
        for y in &shapes {
            rep.evals += 1;
            let (veq, vne, vcmp, vrel) = ops(&**x, &**y);
            let (aeq, ane, acmp, arel) = ops(x, y);
            if aeq != veq || ane != vne || acmp != vcmp || arel != vrel {
                rep.bad("Arc<dyn Trait> ==/!=/partial_cmp/<..: differs from the values (payloads of different concrete size)",
                        format!("areas {} and {}: Arc gives ({},{},{}), values give ({},{},{})", x.area(), y.area(), aeq, ane, acmp, veq, vne, vcmp));
            }
            if (calls(x) == calls(y)) != (calls(&**x) == calls(&**y)) {
                rep.bad("Arc<dyn Trait> Hash: differs from the values", format!("areas {} and {}", x.area(), y.area()));
            }
        }
    }
    let nums: Vec<Arc<Num>> = ["7", "007", "70", "0070", "8"].iter().map(|s| Num::arc(s)).collect();
    for x in &nums {
        for y in &nums {
            rep.evals += 1;
            let (veq, vne, vcmp, vrel) = ops(&**x, &**y);
            let (aeq, ane, acmp, arel) = ops(x, y);
            if aeq != veq || ane != vne || acmp != vcmp || arel != vrel {
                rep.bad("Arc<unsized newtype> ==/!=/partial_cmp/<..: differs from the values (payloads of different length)",
                        format!("{} and {}: Arc gives ({},{},{}), values give ({},{},{})", x.val(), y.val(), aeq, ane, acmp, veq, vne, vcmp));
            }
        }
    }
}

/// hashing and map-key use (total carrier only)
fn hash_rows(rep: &mut Report) {
    fn hv<T: Hash + ?Sized>(t: &T) -> u64 {
        let mut s = DefaultHasher::new();
        t.hash(&mut s);
        s.finish()
    }
    // the exact calls a handle makes on the hasher are the value's
    {
        macro_rules! same_calls {
            ($what:expr, $h:expr) => {{
                rep.evals += 1;
                let h = $h;
                if calls(&h) != calls(&*h) {
                    rep.bad(concat!("Hash: the handle does not feed the hasher what the value feeds it: ", $what), String::new());
                }
            }};
        }
        same_calls!("Arc<(u8, u32)>", Arc::new((1u8, 2u32)));
        same_calls!("Arc<[u32]>", Arc::<[u32]>::from(vec![1u32, 38, 7]));
        same_calls!("Arc<str>", Arc::<str>::from("abc"));
        same_calls!("Arc<HeaderSlice<HeaderWithLength<u16>, [u32]>>", Arc::from_header_and_slice(HeaderWithLength::new(7u16, 3), &[1u32, 38, 7]));
        same_calls!("Arc<HeaderSlice<u8, [u64]>>", Arc::from_header_and_slice(7u8, &[1u64, 2]));
        for n in 0..4usize {
            rep.evals += 1;
            let items: Vec<u32> = (0..n as u32).map(|i| i * 37 + 1).collect();
            let t: ThinArc<u16, u32> = ThinArc::from_header_and_slice(7, &items);
            if calls(&t) != calls(&*t) {
                rep.bad("Hash: the handle does not feed the hasher what the value feeds it: ThinArc<u16, u32>", format!("{} item(s)", n));
            }
            let f = Arc::from_thin(t.clone());
            if calls(&t) != calls(&f) {
                rep.bad("Hash: a ThinArc and the fat Arc of the same value feed the hasher differently", format!("{} item(s)", n));
            }
        }
    }
    let mut hm: HashMap<Arc<(u8, u8)>, usize> = HashMap::new();
    let mut bm: BTreeMap<Arc<(u8, u8)>, usize> = BTreeMap::new();
    let mut hs: HashMap<Arc<str>, usize> = HashMap::new();
    let mut n = 0;
    for a in 1..=3u8 {
        for b in 1..=3u8 {
            hm.insert(Arc::new((a, b)), n);
            bm.insert(Arc::new((a, b)), n);
            hs.insert(Arc::from(format!("{}{}", a, b)), n);
            n += 1;
            rep.evals += 1;
            let v = (a, b);
            let arc = Arc::new(v);
            if hv(&arc) != hv(&v) {
                rep.bad("Arc Hash: differs from the value's", format!("{:?}", v));
            }
            let off = Arc::into_raw_offset(arc.clone());
            let _ = off;
            let hsl: Arc<HeaderSlice<HeaderWithLength<u8>, [u8]>> = Arc::from_header_and_slice(HeaderWithLength::new(a, 1), &[b]);
            if hv(&hsl) != hv(&*hsl) {
                rep.bad("Arc<HeaderSlice> Hash: differs from the value's", format!("{:?}", v));
            }
            let t: ThinArc<u8, u8> = ThinArc::from_header_and_slice(a, &[b]);
            if hv(&t) != hv(&*t) {
                rep.bad("ThinArc Hash: differs from the value's", format!("{:?}", v));
            }
            let t2: ThinArc<u8, u8> = ThinArc::from_header_and_slice(a, &[b]);
            if t == t2 && hv(&t) != hv(&t2) {
                rep.bad("ThinArc Hash: equal handles hash differently", format!("{:?}", v));
            }
            if format!("{}", Arc::new(a)) != format!("{}", a) {
                rep.bad("Arc Display: differs from the value's", format!("{:?}", a));
            }
        }
    }
    // payloads of (dynamic) size zero still hash something: a length prefix, a string terminator, whatever a
    // hand-written impl feeds the hasher
    {
        #[derive(PartialEq, Eq, Clone, Copy, Debug)]
        struct Marker;
        impl Hash for Marker {
            fn hash<S: Hasher>(&self, s: &mut S) {
                s.write_u32(0xC0FFEE);
            }
        }
        macro_rules! same {
            ($what:expr, $arc:expr) => {{
                rep.evals += 1;
                let a = $arc;
                if hv(&a) != hv(&*a) {
                    rep.bad(concat!("Hash of a handle differs from the value's: ", $what), String::new());
                }
            }};
        }
        same!("Arc<str> (empty)", Arc::<str>::from(""));
        same!("Arc<str>", Arc::<str>::from("ab"));
        same!("Arc<[u8]> (empty)", Arc::<[u8]>::from(Vec::<u8>::new()));
        same!("Arc<[u8]>", Arc::<[u8]>::from(vec![1u8, 2]));
        same!("Arc<[u32; 0]>", Arc::new([0u32; 0]));
        same!("Arc<()>", Arc::new(()));
        same!("Arc<[(); 3]>", Arc::new([(); 3]));
        same!("Arc<[()]> (three units)", Arc::<[()]>::from(vec![(), (), ()]));
        same!("Arc<zero-sized type with its own Hash>", Arc::new(Marker));
        same!("Arc<HeaderSlice<HeaderWithLength<u8>, [u8]>> (empty slice)",
              Arc::from_header_and_slice(HeaderWithLength::new(1u8, 0), &[] as &[u8]));
        {
            rep.evals += 1;
            let t: ThinArc<u8, u8> = ThinArc::from_header_and_slice(1, &[]);
            if hv(&t) != hv(&*t) {
                rep.bad("Hash of a handle differs from the value's: ThinArc (empty slice)", String::new());
            }
            let t: ThinArc<(), u8> = ThinArc::from_header_and_slice((), &[]);
            if hv(&t) != hv(&*t) {
                rep.bad("Hash of a handle differs from the value's: ThinArc<(), u8> (empty)", String::new());
            }
        }
        let mut es: HashMap<Arc<str>, u8> = HashMap::new();
        es.insert(Arc::from(""), 1);
        es.insert(Arc::from("x"), 2);
        if es.get("") != Some(&1) || es.get("x") != Some(&2) {
            rep.bad("Arc<str> as HashMap key through Borrow: lookup of the empty string fails", String::new());
        }
        let mut el: HashMap<Arc<[u8]>, u8> = HashMap::new();
        el.insert(Arc::from(Vec::<u8>::new()), 1);
        el.insert(Arc::from(vec![7u8]), 2);
        if el.get(&[][..]) != Some(&1) || el.get(&[7u8][..]) != Some(&2) {
            rep.bad("Arc<[u8]> as HashMap key through Borrow: lookup of the empty slice fails", String::new());
        }
        let mut em: HashMap<Arc<Marker>, u8> = HashMap::new();
        em.insert(Arc::new(Marker), 1);
        if em.get(&Marker) != Some(&1) {
            rep.bad("Arc<zero-sized key> as HashMap key through Borrow: lookup by value fails", String::new());
        }
    }
    let mut k = 0;
    for a in 1..=3u8 {
        for b in 1..=3u8 {
            if hm.get(&(a, b)) != Some(&k) {
                rep.bad("Arc as HashMap key through Borrow: lookup by value fails", format!("{:?}", (a, b)));
            }
            if bm.get(&(a, b)) != Some(&k) {
                rep.bad("Arc as BTreeMap key through Borrow: lookup by value fails", format!("{:?}", (a, b)));
            }
            if hs.get(format!("{}{}", a, b).as_str()) != Some(&k) {
                rep.bad("Arc<str> as HashMap key through Borrow: lookup by &str fails", format!("{:?}", (a, b)));
            }
            k += 1;
        }
    }
    let order: Vec<(u8, u8)> = bm.keys().map(|k| **k).collect();
    let mut sorted = order.clone();
    sorted.sort();
    if order != sorted {
        rep.bad("Arc cmp: BTreeMap iterates out of value order", format!("{:?}", order));
    }
    // ThinArc in ordered collections: cmp must agree with partial_cmp / the value order
    let mut ts: Vec<ThinArc<u8, u8>> = vec![];
    for h in 1..=2u8 {
        for s in [&[][..], &[1][..], &[2][..], &[1, 1][..], &[1, 2][..], &[2, 1][..]] {
            ts.push(ThinArc::from_header_and_slice(h, s));
        }
    }
    for x in &ts {
        for y in &ts {
            rep.evals += 1;
            let vals = (x.header.header, &x.slice).cmp(&(y.header.header, &y.slice));
            if x.cmp(y) != vals || x.partial_cmp(y) != Some(vals) {
                rep.bad("ThinArc cmp/partial_cmp: not header-then-slice order", format!("({}, {:?}) vs ({}, {:?})", x.header.header, &x.slice, y.header.header, &y.slice));
            }
            let a = Arc::from_thin(x.clone());
            let b = Arc::from_thin(y.clone());
            if a.cmp(&b) != vals {
                rep.bad("Arc<HeaderSlice> cmp: not header-then-slice order", format!("({}, {:?}) vs ({}, {:?})", x.header.header, &x.slice, y.header.header, &y.slice));
            }
        }
    }
}

pub fn run(total_rows: &str, partial_rows: &str, refl_rows: &str, out_path: &str) {
    let mut rep = Report { errs: vec![], evals: 0 };
    let mut samples: Vec<Value> = vec![];
    for (path, carrier) in [(total_rows, "total"), (partial_rows, "partial"), (refl_rows, "refl")] {
        let txt = std::fs::read_to_string(path).unwrap_or_default();
        let mut i = 0;
        for line in txt.lines() {
            let body = match line.trim_end().strip_prefix("<<\"ROW\", \"").and_then(|x| x.strip_suffix("\">>")) {
                Some(b) => b.replace("\\\"", "\""),
                None => continue,
            };
            let r: Value = serde_json::from_str(&body).unwrap();
            i += 1;
            if i % 1999 == 0 && samples.len() < 4 {
                samples.push(json!({"carrier": carrier, "row": r}));
            }
            match carrier {
                "total" => row::<u8>(&r, &mut rep),
                "partial" => row::<f32>(&r, &mut rep),
                _ => row::<Refl>(&r, &mut rep),
            }
        }
    }
    sized_rows::<u8>(&mut rep);
    sized_rows::<f32>(&mut rep);
    sized_rows::<Refl>(&mut rep);
    hash_rows(&mut rep);
    unsized_rows(&mut rep);
    view_rows(&mut rep);
    optional_hash_rows(&mut rep);
    format_rows(&mut rep);
    if samples.is_empty() {
        samples.push(json!("(no row sampled)"));
    }
    let viol: Vec<Value> = rep.errs.iter().map(|(k, m)| json!({"key": k, "msg": m})).collect();
    let out = json!({"evaluations": rep.evals, "violations": viol, "samples": samples});
    std::fs::write(out_path, serde_json::to_string_pretty(&out).unwrap()).unwrap();
}
