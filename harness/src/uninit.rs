//! Interpreter for uninitialised construction (`Uninit.tla`, property C15).

use crate::alloc;
use crate::ev::{self, Ev};
use crate::payload::{Pay, Zh, A, E, NEXT_ID, ZID};
use crate::sized::{parse_op, Op, Res};
use serde_json::Value;
use std::mem::MaybeUninit;
use std::panic::{catch_unwind, AssertUnwindSafe};
use std::sync::atomic::Ordering;
use triomphe::{Arc, HeaderSlice, UniqueArc};

type MU = MaybeUninit<E>;

#[allow(clippy::enum_variant_names)]
pub enum H {
    // uninit-typed
    UqS(UniqueArc<MU>),
    ArS(Arc<MU>),
    UqL(UniqueArc<[MU]>),
    ArL(Arc<[MU]>),
    UqH(UniqueArc<HeaderSlice<A, [MU]>>),
    ArH(Arc<HeaderSlice<A, [MU]>>),
    UqZ(UniqueArc<HeaderSlice<Zh, [MU]>>),
    ArZ(Arc<HeaderSlice<Zh, [MU]>>),
    // init-typed
    IUqS(UniqueArc<E>),
    IArS(Arc<E>),
    IUqL(UniqueArc<[E]>),
    IArL(Arc<[E]>),
    IUqH(UniqueArc<HeaderSlice<A, [E]>>),
    IArH(Arc<HeaderSlice<A, [E]>>),
    IUqZ(UniqueArc<HeaderSlice<Zh, [E]>>),
    IArZ(Arc<HeaderSlice<Zh, [E]>>),
}

pub struct Obs {
    kind: &'static str,
    count: Option<usize>,
    heap: usize,
    len: usize,
    /// identities read from the slots of an init-typed handle
    slot_ids: Option<Vec<(u32, bool)>>,
    hdr: Option<(u32, bool)>,
}

fn heap_of<T: ?Sized>(p: *const T, align: usize) -> usize {
    p as *const u8 as usize - 8usize.max(align)
}

pub fn observe(h: &H) -> Obs {
    let al = std::mem::align_of::<E>().max(std::mem::align_of::<A>());
    let ea = std::mem::align_of::<E>();
    match h {
        H::UqS(u) => Obs { kind: "UnqU", count: None, heap: heap_of(&**u as *const MU, ea), len: 1, slot_ids: None, hdr: None },
        H::ArS(a) => Obs { kind: "ArcU", count: Some(Arc::count(a)), heap: a.heap_ptr() as usize, len: 1, slot_ids: None, hdr: None },
        H::UqL(u) => Obs { kind: "UnqU", count: None, heap: heap_of(u.as_ptr(), ea), len: u.len(), slot_ids: None, hdr: None },
        H::ArL(a) => Obs { kind: "ArcU", count: Some(Arc::count(a)), heap: a.heap_ptr() as usize, len: a.len(), slot_ids: None, hdr: None },
        H::UqH(u) => Obs { kind: "UnqU", count: None, heap: heap_of(&u.header as *const A, al), len: u.slice.len(), slot_ids: None,
                           hdr: Some((u.header.see().id, u.header.see().ok)) },
        H::ArH(a) => Obs { kind: "ArcU", count: Some(Arc::count(a)), heap: a.heap_ptr() as usize, len: a.slice.len(), slot_ids: None,
                           hdr: Some((a.header.see().id, a.header.see().ok)) },
        H::UqZ(u) => Obs { kind: "UnqU", count: None, heap: heap_of(u.slice.as_ptr(), ea), len: u.slice.len(), slot_ids: None, hdr: None },
        H::ArZ(a) => Obs { kind: "ArcU", count: Some(Arc::count(a)), heap: a.heap_ptr() as usize, len: a.slice.len(), slot_ids: None, hdr: None },
        H::IUqZ(u) => Obs { kind: "UnqI", count: None, heap: heap_of(u.slice.as_ptr(), ea), len: u.slice.len(),
                            slot_ids: Some(u.slice.iter().map(|e| (e.see().id, e.see().ok)).collect()), hdr: None },
        H::IArZ(a) => Obs { kind: "ArcI", count: Some(Arc::count(a)), heap: a.heap_ptr() as usize, len: a.slice.len(),
                            slot_ids: Some(a.slice.iter().map(|e| (e.see().id, e.see().ok)).collect()), hdr: None },
        H::IUqS(u) => Obs { kind: "UnqI", count: None, heap: heap_of(&**u as *const E, ea), len: 1, slot_ids: Some(vec![(u.see().id, u.see().ok)]), hdr: None },
        H::IArS(a) => Obs { kind: "ArcI", count: Some(Arc::count(a)), heap: a.heap_ptr() as usize, len: 1, slot_ids: Some(vec![(a.see().id, a.see().ok)]), hdr: None },
        H::IUqL(u) => Obs { kind: "UnqI", count: None, heap: heap_of(u.as_ptr(), ea), len: u.len(),
                            slot_ids: Some(u.iter().map(|e| (e.see().id, e.see().ok)).collect()), hdr: None },
        H::IArL(a) => Obs { kind: "ArcI", count: Some(Arc::count(a)), heap: a.heap_ptr() as usize, len: a.len(),
                            slot_ids: Some(a.iter().map(|e| (e.see().id, e.see().ok)).collect()), hdr: None },
        H::IUqH(u) => Obs { kind: "UnqI", count: None, heap: heap_of(&u.header as *const A, al), len: u.slice.len(),
                            slot_ids: Some(u.slice.iter().map(|e| (e.see().id, e.see().ok)).collect()),
                            hdr: Some((u.header.see().id, u.header.see().ok)) },
        H::IArH(a) => Obs { kind: "ArcI", count: Some(Arc::count(a)), heap: a.heap_ptr() as usize, len: a.slice.len(),
                            slot_ids: Some(a.slice.iter().map(|e| (e.see().id, e.see().ok)).collect()),
                            hdr: Some((a.header.see().id, a.header.see().ok)) },
    }
}

/// every slot of the specification stands for `scale()` consecutive slots of the implementation's slice
/// (TVH_LEN_SCALE, default 1): the same behaviours replayed with long slices
pub fn scale() -> usize {
    static K: std::sync::atomic::AtomicUsize = std::sync::atomic::AtomicUsize::new(0);
    let k = K.load(Ordering::Relaxed);
    if k != 0 {
        return k;
    }
    let k = std::env::var("TVH_LEN_SCALE").ok().and_then(|v| v.parse().ok()).unwrap_or(1usize).max(1);
    K.store(k, Ordering::Relaxed);
    k
}

pub struct BlockInfo {
    addr: usize,
    hid: u32,
    /// implementation slots per specification slot (1 for the sized kinds)
    k: usize,
    /// identity written into each slot (0: never written)
    slot: Vec<u32>,
}

pub struct Ctx {
    slots: Vec<Option<H>>,
    blocks: Vec<BlockInfo>,
    events: Vec<Ev>,
    last: Res,
    errors: Vec<String>,
    id0: u32,
    panics: Vec<Box<dyn std::any::Any + Send>>,
}

macro_rules! bad {
    ($self:ident, $($arg:tt)*) => {{ $self.errors.push(format!($($arg)*)); }};
}

impl Ctx {
    fn call<R>(&mut self, f: impl FnOnce() -> R) -> Option<R> {
        alloc::track(true);
        let r = catch_unwind(AssertUnwindSafe(f));
        alloc::track(false);
        match r {
            Ok(v) => Some(v),
            Err(p) => {
                if let Some(b) = p.downcast_ref::<crate::payload::HarnessBug>() {
                    self.errors.push(format!("[harness] {}", b.0));
                }
                self.last.panicked = true;
                self.panics.push(p);
                None
            }
        }
    }
    fn block_of(&self, addr: usize) -> usize {
        self.blocks.iter().position(|b| b.addr == addr).map(|i| i + 1).unwrap_or(0)
    }

    #[allow(deprecated)]
    fn step(&mut self, op: &Op) {
        let (s, d) = (op.s, op.d);
        match op.name.as_str() {
            "NewUninit" => {
                let k = if op.x.ends_with("sized") { 1 } else { scale() };
                let len = op.s * k;
                let c = op.x.clone();
                let r = self.call(move || match c.as_str() {
                    "unq_sized" => (H::UqS(UniqueArc::<E>::new_uninit()), 0),
                    "arc_sized" => (H::ArS(Arc::<MU>::new_uninit()), 0),
                    "unq_slice" => (H::UqL(UniqueArc::<[MU]>::new_uninit_slice(len)), 0),
                    "arc_slice" => (H::ArL(Arc::<[MU]>::new_uninit_slice(len)), 0),
                    "unq_hdrz" => (H::UqZ(UniqueArc::from_header_and_uninit_slice(Zh, len)), ZID),
                    _ => {
                        let hd = A::mk(7);
                        let hid = hd.see().id;
                        (H::UqH(UniqueArc::from_header_and_uninit_slice(hd, len)), hid)
                    }
                });
                if let Some((h, hid)) = r {
                    let o = observe(&h);
                    if o.len != if op.x.ends_with("sized") { 1 } else { len } {
                        bad!(self, "[contents] new uninit block reports {} slots, asked for {}", o.len, len);
                    }
                    self.blocks.push(BlockInfo { addr: o.heap, hid, k, slot: vec![0; len.max(1)] });
                    self.slots[d] = Some(h);
                }
            }
            "Write" | "ArcWrite" => {
                let arc = op.name == "ArcWrite";
                let b = self.slots[s].as_ref().map(|h| self.block_of(observe(h).heap)).unwrap_or(0);
                let k = if b > 0 { self.blocks[b - 1].k } else { 1 };
                let i0 = (d - 1) * k;
                let mut vals: Vec<E> = (0..k).map(|_| E::mk(50 + d as u32)).collect();
                let ids: Vec<u32> = vals.iter().map(|v| v.see().id).collect();
                vals.reverse();
                // write the k implementation slots the specification slot stands for; a refusal (panic or None)
                // comes before the first of them
                macro_rules! wr {
                    ($sl:expr) => {{
                        for j in 0..k {
                            $sl[i0 + j].write(vals.pop().unwrap());
                        }
                        true
                    }};
                }
                let r = match self.slots[s].as_mut() {
                    Some(h) => {
                        let hp: *mut H = h;
                        self.call(move || unsafe {
                            match &mut *hp {
                                H::UqS(u) if !arc => {
                                    u.write(vals.pop().unwrap());
                                    true
                                }
                                H::UqL(u) if !arc => wr!(u),
                                H::UqH(u) if !arc => wr!(u.slice),
                                H::UqZ(u) if !arc => wr!(u.slice),
                                H::ArZ(a) if arc => match Arc::get_mut(a) {
                                    Some(r) => wr!(r.slice),
                                    None => {
                                        vals.drain(..).for_each(std::mem::forget);
                                        false
                                    }
                                },
                                H::ArS(a) if arc => {
                                    a.write(vals.pop().unwrap());
                                    true
                                }
                                H::ArL(a) if arc => {
                                    let sl = a.as_mut_slice();
                                    wr!(sl)
                                }
                                H::ArH(a) if arc => match Arc::get_mut(a) {
                                    Some(r) => wr!(r.slice),
                                    None => {
                                        vals.drain(..).for_each(std::mem::forget);
                                        false
                                    }
                                },
                                _ => crate::payload::harness_bug("write on wrong kind"),
                            }
                        })
                    }
                    None => None,
                };
                match r {
                    Some(true) => {
                        self.last.verdict = Some(true);
                        if b > 0 {
                            for (j, id) in ids.iter().enumerate() {
                                self.blocks[b - 1].slot[i0 + j] = *id;
                            }
                        }
                    }
                    Some(false) => self.last.verdict = Some(false),
                    None => {
                        // refused by panic: the value we tried to write was dropped by the unwind
                        self.last.verdict = Some(false);
                    }
                }
            }
            "AsMutSlice" => {
                let r = match self.slots[s].as_mut() {
                    Some(H::ArL(a)) => {
                        let ap: *mut Arc<[MU]> = a;
                        self.call(move || unsafe { (*ap).as_mut_slice().len() })
                    }
                    _ => {
                        bad!(self, "[harness] AsMutSlice on wrong kind");
                        None
                    }
                };
                self.last.verdict = Some(r.is_some());
            }
            "Clone" => {
                let n = match &self.slots[s] {
                    Some(h) => {
                        let hp: *const H = h;
                        self.call(|| unsafe {
                            match &*hp {
                                H::ArS(a) => H::ArS(a.clone()),
                                H::ArL(a) => H::ArL(a.clone()),
                                H::ArH(a) => H::ArH(a.clone()),
                                H::ArZ(a) => H::ArZ(a.clone()),
                                H::IArZ(a) => H::IArZ(a.clone()),
                                H::IArS(a) => H::IArS(a.clone()),
                                H::IArL(a) => H::IArL(a.clone()),
                                H::IArH(a) => H::IArH(a.clone()),
                                _ => crate::payload::harness_bug("Clone on wrong kind"),
                            }
                        })
                    }
                    None => None,
                };
                if let Some(n) = n {
                    self.slots[d] = Some(n);
                }
            }
            "Drop" => {
                if let Some(h) = self.slots[s].take() {
                    self.call(move || drop(h));
                }
            }
            "Shareable" => {
                if let Some(h) = self.slots[s].take() {
                    let n = self.call(move || match h {
                        H::UqS(u) => H::ArS(u.shareable()),
                        H::UqL(u) => H::ArL(u.shareable()),
                        H::UqH(u) => H::ArH(u.shareable()),
                        H::UqZ(u) => H::ArZ(u.shareable()),
                        H::IUqZ(u) => H::IArZ(u.shareable()),
                        H::IUqS(u) => H::IArS(u.shareable()),
                        H::IUqL(u) => H::IArL(u.shareable()),
                        H::IUqH(u) => H::IArH(u.shareable()),
                        _ => crate::payload::harness_bug("Shareable on wrong kind"),
                    });
                    self.slots[s] = n;
                }
            }
            "TryUnique" => {
                if let Some(h) = self.slots[s].take() {
                    macro_rules! tu {
                        ($a:expr, $ok:path, $err:path) => {
                            match Arc::try_unique($a) {
                                Ok(u) => ($ok(u), true),
                                Err(a) => ($err(a), false),
                            }
                        };
                    }
                    let n = self.call(move || match h {
                        H::ArS(a) => tu!(a, H::UqS, H::ArS),
                        H::ArL(a) => tu!(a, H::UqL, H::ArL),
                        H::ArH(a) => tu!(a, H::UqH, H::ArH),
                        H::ArZ(a) => tu!(a, H::UqZ, H::ArZ),
                        H::IArZ(a) => tu!(a, H::IUqZ, H::IArZ),
                        H::IArS(a) => tu!(a, H::IUqS, H::IArS),
                        H::IArL(a) => tu!(a, H::IUqL, H::IArL),
                        H::IArH(a) => tu!(a, H::IUqH, H::IArH),
                        _ => crate::payload::harness_bug("TryUnique on wrong kind"),
                    });
                    if let Some((n, v)) = n {
                        self.last.verdict = Some(v);
                        self.slots[s] = Some(n);
                    }
                }
            }
            "AssumeInit" => {
                if let Some(h) = self.slots[s].take() {
                    let n = self.call(move || unsafe {
                        match h {
                            H::UqS(u) => H::IUqS(UniqueArc::assume_init(u)),
                            H::UqL(u) => H::IUqL(UniqueArc::assume_init_slice(u)),
                            H::UqH(u) => H::IUqH(u.assume_init_slice_with_header()),
                            H::UqZ(u) => H::IUqZ(u.assume_init_slice_with_header()),
                            H::ArS(a) => H::IArS(a.assume_init()),
                            H::ArL(a) => H::IArL(a.assume_init()),
                            _ => crate::payload::harness_bug("AssumeInit on wrong kind"),
                        }
                    });
                    self.slots[s] = n;
                }
            }
            other => bad!(self, "[harness] unknown op {}", other),
        }
    }

    fn check(&mut self, x: &Value) {
        self.events.extend(ev::drain());
        let (xb, xh, xr) = (&x[0], &x[1], &x[2]);
        let mut drops: std::collections::HashMap<u32, u32> = Default::default();
        let mut frees: std::collections::HashMap<usize, u32> = Default::default();
        for e in &self.events {
            match e {
                Ev::Drop { id, .. } => *drops.entry(*id).or_default() += 1,
                Ev::Dealloc { addr, status, size, align, rsize, ralign, .. } => {
                    *frees.entry(*addr).or_default() += 1;
                    if *status != 0 {
                        self.errors.push(format!("[layout] block {:#x} requested (size {}, align {}) released (size {}, align {}) status {}", addr, rsize, ralign, size, align, status));
                    }
                }
                Ev::BadDrop { addr, magic } => self.errors.push(format!(
                    "[baddrop] a destructor ran on a slot that holds no object at {:#x} (magic {:#x}: {})", addr, magic,
                    if *magic == 0xA5A5A5A5 { "never written" } else { "freed or already destroyed" })),
                _ => {}
            }
        }
        for s in 1..self.slots.len() {
            let ek = xh[s - 1][0].as_str().unwrap_or("?");
            let eb = xh[s - 1][1].as_u64().unwrap_or(0) as usize;
            match &self.slots[s] {
                None => {
                    if ek != "none" {
                        bad!(self, "[kind] slot {}: expected a {} handle, implementation has none", s, ek);
                    }
                }
                Some(h) => {
                    let o = observe(h);
                    if o.kind != ek {
                        bad!(self, "[kind] slot {}: expected kind {}, got {}", s, ek, o.kind);
                    }
                    let b = self.block_of(o.heap);
                    if b != eb {
                        bad!(self, "[block] slot {} ({}): expected block {}, handle points at block {}", s, o.kind, eb, b);
                        continue;
                    }
                    let xrc = xb[b - 1][2].as_u64().unwrap_or(0) as usize;
                    let xlen = xb[b - 1][3].as_u64().unwrap_or(0) as usize;
                    if let Some(c) = o.count {
                        if c != xrc {
                            bad!(self, "[count] block {}: count through slot {} ({}) is {}, specification says {}", b, s, o.kind, c, xrc);
                        }
                    }
                    let xlen = xlen * self.blocks[b - 1].k;
                    if o.len != xlen {
                        bad!(self, "[contents] block {}: {} slots through slot {} ({}), specification says {}", b, o.len, s, o.kind, xlen);
                    }
                    if let Some(ids) = &o.slot_ids {
                        let want: Vec<u32> = self.blocks[b - 1].slot.iter().take(xlen).cloned().collect();
                        let got: Vec<u32> = ids.iter().map(|x| x.0).collect();
                        if got != want || ids.iter().any(|x| !x.1) {
                            bad!(self, "[contents] block {}: after assume_init the slots do not hold the objects that were written", b);
                        }
                    }
                    if let Some((hid, ok)) = o.hdr {
                        if hid != self.blocks[b - 1].hid || !ok {
                            bad!(self, "[value] block {}: header through slot {} ({}) is not the header that was given", b, s, o.kind);
                        }
                    }
                }
            }
        }
        let nb = xb.as_array().map(|a| a.len()).unwrap_or(0);
        if (0..nb).filter(|i| xb[*i][0] != "none").count() != self.blocks.len() {
            bad!(self, "[stray] specification and implementation disagree on the number of blocks");
        }
        for i in 0..nb.min(self.blocks.len()) {
            let st = xb[i][0].as_str().unwrap_or("?");
            let xhd = xb[i][5].as_u64().unwrap_or(0) as u32;
            let xfr = xb[i][7].as_u64().unwrap_or(0) as u32;
            let info = &self.blocks[i];
            if info.hid == ZID {
                continue; // zero-sized headers share one identity: totals are compared below
            }
            let hd = if info.hid != 0 { *drops.get(&info.hid).unwrap_or(&0) } else { 0 };
            if hd != xhd {
                self.errors.push(format!("[drops] block {} ({}): header destroyed {} time(s), specification says {}", i + 1, st, hd, xhd));
            }
            for (k, id) in info.slot.iter().enumerate() {
                let want = xb[i][6][k / info.k].as_u64().unwrap_or(0) as u32;
                let got = if *id != 0 { *drops.get(id).unwrap_or(&0) } else { 0 };
                if got != want {
                    self.errors.push(format!("[drops] block {} ({}): object written into slot {} destroyed {} time(s), specification says {}", i + 1, st, k + 1, got, want));
                }
            }
            let f = *frees.get(&info.addr).unwrap_or(&0);
            if f != xfr {
                self.errors.push(format!("[frees] block {} ({}): memory released {} time(s), specification says {}", i + 1, st, f, xfr));
            }
        }
        let zwant: u64 = (0..nb.min(self.blocks.len())).filter(|i| self.blocks[*i].hid == ZID).map(|i| xb[i][5].as_u64().unwrap_or(0)).sum();
        let zgot = *drops.get(&ZID).unwrap_or(&0) as u64;
        if zgot != zwant {
            self.errors.push(format!("[drops] zero-sized headers destroyed {} time(s) in total, specification says {}", zgot, zwant));
        }
        let xop = xr[0].as_str().unwrap_or("-");
        let xver = xr[2].as_str().unwrap_or("-");
        let xpan = xr[3].as_u64().unwrap_or(0) == 1;
        if xver != "-" && self.last.verdict != Some(xver == "yes") {
            bad!(self, "[verdict] {}: verdict {:?}, specification says {}", xop, self.last.verdict, xver);
        }
        if self.last.panicked != xpan {
            bad!(self, "[panicked] {}: panicked = {}, specification says {}", xop, self.last.panicked, xpan);
        }
    }

    fn drain(&mut self) {
        // remember which handle type releases which block last: uninit-typed release leaks written objects by design
        for s in 0..self.slots.len() {
            if let Some(h) = self.slots[s].take() {
                let r = self.call(move || drop(h));
                if r.is_none() {
                    bad!(self, "[drain] releasing slot {} panicked", s);
                }
            }
        }
        self.panics.clear();
        self.events.extend(ev::drain());
        let mut drops: std::collections::HashMap<u32, u32> = Default::default();
        for e in &self.events {
            match e {
                Ev::Drop { id, .. } => *drops.entry(*id).or_default() += 1,
                Ev::BadDrop { addr, magic } => {
                    let m = format!("[baddrop] a destructor ran on a slot that holds no object at {:#x} (magic {:#x}: {})", addr, magic,
                        if *magic == 0xA5A5A5A5 { "never written" } else { "freed or already destroyed" });
                    if !self.errors.contains(&m) {
                        self.errors.push(m);
                    }
                }
                _ => {}
            }
        }
        let id1 = NEXT_ID.load(Ordering::SeqCst);
        for id in self.id0..id1 {
            if *drops.get(&id).unwrap_or(&0) > 1 {
                bad!(self, "[drain] object {} destroyed more than once", id - self.id0 + 1);
            }
        }
        let nz = self.blocks.iter().filter(|b| b.hid == ZID).count() as u32;
        if *drops.get(&ZID).unwrap_or(&0) != nz {
            bad!(self, "[drain] {} zero-sized header(s) were created but {} destructor run(s) happened by the time every handle is gone", nz, drops.get(&ZID).unwrap_or(&0));
        }
        for b in &self.blocks {
            if b.hid == ZID {
                continue;
            }
            if b.hid != 0 && *drops.get(&b.hid).unwrap_or(&0) != 1 {
                bad!(self, "[drain] a header was destroyed {} time(s) by the time every handle is gone", drops.get(&b.hid).unwrap_or(&0));
            }
        }
        if alloc::overruns() > 0 {
            bad!(self, "[overrun] {} block(s) were written past their end (red zone damaged)", alloc::overruns());
        }
        for r in alloc::table() {
            if r.live || r.frees != 1 {
                bad!(self, "[drain] allocation of {} bytes (align {}) released {} time(s) by the time every handle is gone", r.size, r.align, r.frees);
            }
        }
    }
}

pub fn replay_line(nslots: usize, h: &Value, x: &Value) -> Vec<String> {
    alloc::reset();
    ev::LOG.clear();
    let mut ctx = Ctx {
        slots: (0..=nslots).map(|_| None).collect(),
        blocks: vec![],
        events: vec![],
        last: Res::default(),
        errors: vec![],
        id0: NEXT_ID.load(Ordering::SeqCst),
        panics: vec![],
    };
    let ops: Vec<Op> = h.as_array().map(|a| a.iter().map(parse_op).collect()).unwrap_or_default();
    for op in &ops {
        ctx.last = Res::default();
        ctx.step(op);
    }
    ctx.check(x);
    ctx.drain();
    let errs = std::mem::take(&mut ctx.errors);
    drop(ctx);
    alloc::reset();
    errs
}
