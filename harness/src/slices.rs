//! Interpreter for the plain-slice family (`Slices.tla`): Arc<[T]>, header erasure, from_raw_slice,
//! UniqueArc<[T]>, Arc<[T; N]> unsized to Arc<[T]>, ArcBorrow<[T]>.

use crate::alloc;
use crate::ev::{self, Ev};
use crate::payload::{Pay, Seen, E, NEXT_ID};
use crate::sized::{parse_op, Op, Res};
use serde_json::Value;
use std::panic::{catch_unwind, AssertUnwindSafe};
use std::sync::atomic::Ordering;
use triomphe::{Arc, ArcBorrow, HeaderSlice, UniqueArc};
use unsize::{CoerceUnsize, Coercion};

pub const ARR: usize = 2;

pub enum H {
    Sl(Arc<[E]>),
    SlH(Arc<HeaderSlice<(), [E]>>),
    RawSl(*const [E]),
    UnqSl(UniqueArc<[E]>),
    Arr(Arc<[E; ARR]>),
    BorSl(ArcBorrow<'static, [E]>),
}

pub struct Obs {
    kind: &'static str,
    counts: Vec<(&'static str, usize)>,
    elems: Vec<Seen>,
    len: usize,
    heap: usize,
    data: usize,
}

fn heap_from(data: usize) -> usize {
    data - 8usize.max(std::mem::align_of::<E>())
}

pub fn observe(h: &H) -> Obs {
    unsafe {
        match h {
            H::Sl(a) => Obs { kind: "Sl", counts: vec![("Arc::count", Arc::count(a)), ("Arc::strong_count", Arc::strong_count(a))],
                              elems: a.iter().map(|e| e.see()).collect(), len: a.len(), heap: a.heap_ptr() as usize, data: (**a).as_ptr() as usize },
            H::SlH(a) => Obs { kind: "SlH", counts: vec![("Arc::count", Arc::count(a)), ("Arc::strong_count", Arc::strong_count(a))],
                               elems: a.slice.iter().map(|e| e.see()).collect(), len: a.slice.len(), heap: a.heap_ptr() as usize, data: a.slice.as_ptr() as usize },
            H::RawSl(p) => {
                let s: &[E] = &**p;
                Obs { kind: "RawSl", counts: vec![], elems: s.iter().map(|e| e.see()).collect(), len: s.len(), heap: heap_from(s.as_ptr() as usize), data: s.as_ptr() as usize }
            }
            H::UnqSl(u) => Obs { kind: "UnqSl", counts: vec![], elems: u.iter().map(|e| e.see()).collect(), len: u.len(), heap: heap_from((**u).as_ptr() as usize), data: (**u).as_ptr() as usize },
            H::Arr(a) => Obs { kind: "Arr", counts: vec![("Arc::count", Arc::count(a)), ("Arc::strong_count", Arc::strong_count(a))],
                               elems: a.iter().map(|e| e.see()).collect(), len: ARR, heap: a.heap_ptr() as usize, data: (**a).as_ptr() as usize },
            H::BorSl(b) => {
                // ArcBorrow<[T]> offers no accessor for unsized payloads: it is a transparent NonNull<[T]>
                let p: *const [E] = std::mem::transmute_copy(b);
                let s: &[E] = &*p;
                Obs { kind: "BorSl", counts: vec![], elems: s.iter().map(|e| e.see()).collect(), len: s.len(), heap: heap_from(s.as_ptr() as usize), data: s.as_ptr() as usize }
            }
        }
    }
}

pub struct BlockInfo {
    addr: usize,
    eids: Vec<u32>,
}

pub struct Ctx {
    slots: Vec<Option<H>>,
    blocks: Vec<BlockInfo>,
    events: Vec<Ev>,
    last: Res,
    errors: Vec<String>,
    id0: u32,
    panics: Vec<Box<dyn std::any::Any + Send>>,
}

macro_rules! bad {
    ($self:ident, $($arg:tt)*) => {{ $self.errors.push(format!($($arg)*)); }};
}

impl Ctx {
    fn call<R>(&mut self, f: impl FnOnce() -> R) -> Option<R> {
        alloc::track(true);
        let r = catch_unwind(AssertUnwindSafe(f));
        alloc::track(false);
        match r {
            Ok(v) => Some(v),
            Err(p) => {
                if let Some(b) = p.downcast_ref::<crate::payload::HarnessBug>() {
                    self.errors.push(format!("[harness] {}", b.0));
                }
                self.last.panicked = true;
                self.panics.push(p);
                None
            }
        }
    }
    fn block_of(&self, addr: usize) -> usize {
        self.blocks.iter().position(|b| b.addr == addr).map(|i| i + 1).unwrap_or(0)
    }

    fn step(&mut self, op: &Op) {
        let (s, d) = (op.s, op.d);
        match op.name.as_str() {
            "New" => {
                let len = op.s;
                let how = op.x.clone();
                let v = op.v;
                let mut eids: Vec<u32> = Vec::with_capacity(len + 1);
                let er = &mut eids;
                let r = self.call(move || {
                    let mut es: Vec<E> = Vec::with_capacity(len + 2);
                    for i in 0..len {
                        let e = E::mk(if i == 0 { v } else { 100 + i as u32 });
                        er.push(e.see().id);
                        es.push(e);
                    }
                    match how.as_str() {
                        "vec" => H::Sl(Arc::from(es)),
                        "collect_exact" => H::Sl(es.into_iter().collect()),
                        "collect_inexact" => H::Sl(es.into_iter().filter(|_| true).collect()),
                        "unique_collect" => H::UnqSl(es.into_iter().collect()),
                        "erased" => H::SlH(Arc::from_header_and_vec((), es)),
                        _ => {
                            let mut it = es.into_iter();
                            let arr: [E; ARR] = [it.next().unwrap(), it.next().unwrap()];
                            H::Arr(Arc::new(arr))
                        }
                    }
                });
                if let Some(h) = r {
                    let o = observe(&h);
                    self.blocks.push(BlockInfo { addr: o.heap, eids });
                    self.slots[d] = Some(h);
                }
            }
            "Clone" => {
                let n = match &self.slots[s] {
                    Some(h) => {
                        let hp: *const H = h;
                        self.call(|| unsafe {
                            match &*hp {
                                H::Sl(a) => H::Sl(a.clone()),
                                H::SlH(a) => H::SlH(a.clone()),
                                H::Arr(a) => H::Arr(a.clone()),
                                _ => crate::payload::harness_bug("Clone on wrong kind"),
                            }
                        })
                    }
                    None => None,
                };
                if let Some(n) = n {
                    self.slots[d] = Some(n);
                }
            }
            "Drop" => {
                if let Some(h) = self.slots[s].take() {
                    self.call(move || match h {
                        H::RawSl(_) => crate::payload::harness_bug("Drop on raw"),
                        other => drop(other),
                    });
                }
            }
            "Erase" | "Unerase" | "IntoRaw" | "FromRawSlice" | "FromRaw" | "Shareable" | "Unsize" => {
                if let Some(h) = self.slots[s].take() {
                    let name = op.name.clone();
                    let n = self.call(move || unsafe {
                        match (name.as_str(), h) {
                            ("Erase", H::SlH(a)) => H::Sl(a.into()),
                            ("Unerase", H::Sl(a)) => H::SlH(a.into()),
                            ("IntoRaw", H::Sl(a)) => H::RawSl(Arc::into_raw(a)),
                            ("FromRawSlice", H::RawSl(p)) => H::Sl(Arc::from_raw_slice(p)),
                            ("FromRaw", H::RawSl(p)) => H::Sl(Arc::from_raw(p)),
                            ("Shareable", H::UnqSl(u)) => H::Sl(u.shareable()),
                            ("Unsize", H::Arr(a)) => H::Sl(a.unsize(Coercion::to_slice())),
                            (n, h) => {
                                std::mem::forget(h);
                                crate::payload::harness_bug(&format!("{} on wrong kind", n))
                            }
                        }
                    });
                    self.slots[s] = n;
                }
            }
            "Borrow" => {
                // ArcBorrow<HeaderSlice<(), [T]>> and ArcBorrow<[T]> are the same fat pointer to the same data
                let n = match &self.slots[s] {
                    Some(H::Sl(a)) => Some(H::BorSl(unsafe { std::mem::transmute::<ArcBorrow<'_, [E]>, ArcBorrow<'static, [E]>>(a.borrow_arc()) })),
                    Some(H::SlH(a)) => Some(H::BorSl(unsafe { std::mem::transmute::<ArcBorrow<'_, HeaderSlice<(), [E]>>, ArcBorrow<'static, [E]>>(a.borrow_arc()) })),
                    _ => None,
                };
                match n {
                    Some(n) => self.slots[d] = Some(n),
                    None => bad!(self, "[harness] Borrow on wrong kind"),
                }
            }
            "TryUnique" => {
                if let Some(H::Sl(a)) = self.slots[s].take() {
                    let r = self.call(move || match Arc::try_unique(a) {
                        Ok(u) => (H::UnqSl(u), true),
                        Err(a) => (H::Sl(a), false),
                    });
                    if let Some((n, v)) = r {
                        self.last.verdict = Some(v);
                        self.slots[s] = Some(n);
                    }
                } else {
                    bad!(self, "[harness] TryUnique on wrong kind");
                }
            }
            "GetMut" => {
                let v = op.v;
                let r = match self.slots[s].as_mut() {
                    Some(h) => {
                        let hp: *mut H = h;
                        self.call(|| unsafe {
                            let w = |sl: &mut [E]| {
                                if let Some(e) = sl.first_mut() {
                                    e.set_val(v);
                                }
                            };
                            match &mut *hp {
                                H::Sl(a) => Arc::get_mut(a).map(|r| w(r)).is_some(),
                                H::SlH(a) => Arc::get_mut(a).map(|r| w(&mut r.slice)).is_some(),
                                H::Arr(a) => Arc::get_mut(a).map(|r| w(&mut r[..])).is_some(),
                                H::UnqSl(u) => {
                                    w(&mut **u);
                                    true
                                }
                                _ => crate::payload::harness_bug("GetMut on wrong kind"),
                            }
                        })
                    }
                    None => None,
                };
                self.last.verdict = r;
            }
            other => bad!(self, "[harness] unknown op {}", other),
        }
    }

    fn check(&mut self, x: &Value) {
        self.events.extend(ev::drain());
        let (xb, xh, xr) = (&x[0], &x[1], &x[2]);
        let mut drops: std::collections::HashMap<u32, u32> = Default::default();
        let mut frees: std::collections::HashMap<usize, u32> = Default::default();
        for e in &self.events {
            match e {
                Ev::Drop { id, .. } => *drops.entry(*id).or_default() += 1,
                Ev::Dealloc { addr, status, size, align, rsize, ralign, .. } => {
                    *frees.entry(*addr).or_default() += 1;
                    if *status != 0 {
                        self.errors.push(format!("[layout] block {:#x} requested (size {}, align {}) released (size {}, align {}) status {}", addr, rsize, ralign, size, align, status));
                    }
                }
                Ev::BadDrop { addr, magic } => self.errors.push(format!("[baddrop] destructor ran on something that is not a live object at {:#x} (magic {:#x})", addr, magic)),
                _ => {}
            }
        }
        let mut first: Vec<Option<usize>> = vec![None; self.blocks.len() + 1];
        for s in 1..self.slots.len() {
            let ek = xh[s - 1][0].as_str().unwrap_or("?");
            let eb = xh[s - 1][1].as_u64().unwrap_or(0) as usize;
            match &self.slots[s] {
                None => {
                    if ek != "none" {
                        bad!(self, "[kind] slot {}: expected a {} handle, implementation has none", s, ek);
                    }
                }
                Some(h) => {
                    let o = observe(h);
                    if o.kind != ek {
                        bad!(self, "[kind] slot {}: expected kind {}, got {}", s, ek, o.kind);
                    }
                    let b = self.block_of(o.heap);
                    if b != eb || b == 0 {
                        bad!(self, "[block] slot {} ({}): expected block {}, handle points at block {} (addr {:#x})", s, o.kind, eb, b, o.heap);
                        continue;
                    }
                    let (rc, len, val) = (xb[b - 1][1].as_u64().unwrap_or(0) as usize, xb[b - 1][2].as_u64().unwrap_or(0) as usize, xb[b - 1][3].as_u64().unwrap_or(0) as u32);
                    for (n, c) in &o.counts {
                        if *c != rc {
                            bad!(self, "[count] block {}: {} through slot {} ({}) reports {}, specification says {} owner(s)", b, n, s, o.kind, c, rc);
                        }
                    }
                    if o.len != len {
                        bad!(self, "[contents] block {}: length through slot {} ({}) is {}, specification says {}", b, s, o.kind, o.len, len);
                    }
                    let ids: Vec<u32> = o.elems.iter().map(|e| e.id).collect();
                    if ids != self.blocks[b - 1].eids || o.elems.iter().any(|e| !e.ok) {
                        bad!(self, "[contents] block {}: elements through slot {} ({}) are not the ones put in (or not live objects)", b, s, o.kind);
                    }
                    if len > 0 && o.elems.first().map(|e| e.val) != Some(val) {
                        bad!(self, "[value] block {}: first element through slot {} ({}) holds {:?}, specification says {}", b, s, o.kind, o.elems.first().map(|e| e.val), val);
                    }
                    if o.heap != o.data - 8usize.max(std::mem::align_of::<E>()) {
                        bad!(self, "[heap] slot {} ({}): heap_ptr is not data address - data offset", s, o.kind);
                    }
                    match first[b] {
                        None => first[b] = Some(o.data),
                        Some(d0) if d0 != o.data => bad!(self, "[addr] block {}: data address through slot {} ({}) differs from another handle's", b, s, o.kind),
                        _ => {}
                    }
                }
            }
        }
        let nb = xb.as_array().map(|a| a.len()).unwrap_or(0);
        if (0..nb).filter(|i| xb[*i][0] != "none").count() != self.blocks.len() {
            bad!(self, "[stray] specification and implementation disagree on the number of blocks");
        }
        for i in 0..nb.min(self.blocks.len()) {
            let st = xb[i][0].as_str().unwrap_or("?");
            let (xed, xfr) = (xb[i][4].as_u64().unwrap_or(0) as u32, xb[i][5].as_u64().unwrap_or(0) as u32);
            let info = &self.blocks[i];
            let ed: u32 = info.eids.iter().map(|id| *drops.get(id).unwrap_or(&0)).sum();
            let emax: u32 = info.eids.iter().map(|id| *drops.get(id).unwrap_or(&0)).max().unwrap_or(0);
            if ed != xed || emax > 1 {
                self.errors.push(format!("[drops] block {} ({}): {} element destructor run(s) (max {} per element), specification says {}", i + 1, st, ed, emax, xed));
            }
            let f = *frees.get(&info.addr).unwrap_or(&0);
            if f != xfr {
                self.errors.push(format!("[frees] block {} ({}): memory released {} time(s), specification says {}", i + 1, st, f, xfr));
            }
        }
        let xop = xr[0].as_str().unwrap_or("-");
        let xver = xr[2].as_str().unwrap_or("-");
        if xver != "-" && self.last.verdict != Some(xver == "yes") {
            bad!(self, "[verdict] {}: verdict {:?}, specification says {}", xop, self.last.verdict, xver);
        }
        if self.last.panicked {
            bad!(self, "[panicked] {}: the call panicked", xop);
        }
    }

    fn drain(&mut self) {
        // borrows first
        for s in 0..self.slots.len() {
            if matches!(self.slots[s], Some(H::BorSl(_))) {
                self.slots[s] = None;
            }
        }
        for s in 0..self.slots.len() {
            if let Some(h) = self.slots[s].take() {
                let r = self.call(move || unsafe {
                    match h {
                        H::RawSl(p) => drop(Arc::from_raw_slice(p)),
                        other => drop(other),
                    }
                });
                if r.is_none() {
                    bad!(self, "[drain] releasing slot {} panicked", s);
                }
            }
        }
        self.panics.clear();
        self.events.extend(ev::drain());
        let mut drops: std::collections::HashMap<u32, u32> = Default::default();
        for e in &self.events {
            if let Ev::Drop { id, .. } = e {
                *drops.entry(*id).or_default() += 1;
            }
        }
        let id1 = NEXT_ID.load(Ordering::SeqCst);
        for id in self.id0..id1 {
            let d = *drops.get(&id).unwrap_or(&0);
            if d != 1 {
                bad!(self, "[drain] object {} destroyed {} time(s) by the time every handle is gone", id - self.id0 + 1, d);
            }
        }
        if alloc::overruns() > 0 {
            bad!(self, "[overrun] {} block(s) were written past their end (red zone damaged)", alloc::overruns());
        }
        for r in alloc::table() {
            if r.live || r.frees != 1 {
                bad!(self, "[drain] allocation of {} bytes (align {}) released {} time(s) by the time every handle is gone", r.size, r.align, r.frees);
            }
        }
    }
}

pub fn replay_line(nslots: usize, h: &Value, x: &Value) -> Vec<String> {
    alloc::reset();
    ev::LOG.clear();
    let mut ctx = Ctx {
        slots: (0..=nslots).map(|_| None).collect(),
        blocks: vec![],
        events: vec![],
        last: Res::default(),
        errors: vec![],
        id0: NEXT_ID.load(Ordering::SeqCst),
        panics: vec![],
    };
    let ops: Vec<Op> = h.as_array().map(|a| a.iter().map(parse_op).collect()).unwrap_or_default();
    for op in &ops {
        ctx.last = Res::default();
        ctx.step(op);
    }
    ctx.check(x);
    ctx.drain();
    let errs = std::mem::take(&mut ctx.errors);
    drop(ctx);
    alloc::reset();
    errs
}
