//! Constructor cases enumerated by TLC from `Ctor.tla` (C06, C07): each case is run against the real
//! constructor with a panicking / misreporting iterator and identity-tracked elements; the observation
//! must be one of the outcomes the specification allows for that case.

use crate::alloc;
use crate::ev::{self, Ev};
use crate::payload::{Pay, A, E};
use serde_json::{json, Value};
use std::cell::Cell;
use std::panic::{catch_unwind, AssertUnwindSafe};
use triomphe::{Arc, HeaderSlice, ThinArc, UniqueArc};

struct IterPanic;

/// an iterator over identity-tracked elements that panics at its k-th `next` and reports whatever
/// lengths / hints it is told to, call by call
struct Faulty {
    inner: std::vec::IntoIter<E>,
    calls: usize,
    k: usize,
    lens: Vec<usize>,
    len_calls: Cell<usize>,
    hints: Vec<(usize, Option<usize>)>,
    hint_calls: Cell<usize>,
    /// an iterator that already misreports keeps changing its answer when it is asked more often than the
    /// specification's constructor asks (one more each time); an honest one stays honest
    liar: bool,
}
impl Iterator for Faulty {
    type Item = E;
    fn next(&mut self) -> Option<E> {
        self.calls += 1;
        if self.calls == self.k {
            std::panic::panic_any(IterPanic);
        }
        self.inner.next()
    }
    fn size_hint(&self) -> (usize, Option<usize>) {
        let i = self.hint_calls.get();
        self.hint_calls.set(i + 1);
        self.hints[i.min(self.hints.len() - 1)]
    }
}
impl ExactSizeIterator for Faulty {
    fn len(&self) -> usize {
        let i = self.len_calls.get();
        self.len_calls.set(i + 1);
        if self.liar && i >= self.lens.len() && self.lens[self.lens.len() - 1] < (1 << 40) {
            return self.lens[self.lens.len() - 1] + 1 + (i - self.lens.len());
        }
        self.lens[i.min(self.lens.len() - 1)]
    }
}

enum Built {
    Fat(Arc<HeaderSlice<A, [E]>>),
    Thin(ThinArc<A, E>),
    Slice(Arc<[E]>),
    Uq(UniqueArc<[E]>),
    Bytes(Arc<[u8]>, Vec<u8>),
    Str(Arc<str>, String),
    HStr(Arc<HeaderSlice<A, str>>, String),
    HBytes(Arc<HeaderSlice<A, [u16]>>, Vec<u16>),
    ThinBytes(ThinArc<A, u16>, Vec<u16>),
    /// zero-sized header with a destructor
    FatZ(Arc<HeaderSlice<crate::payload::Zh, [E]>>),
    ThinZ(ThinArc<crate::payload::Zh, E>),
}

pub const N_OBSERVERS: usize = 24;

/// observer k panics inside the payload's comparison / hash / format impl: the panic propagates,
/// counts are unchanged, and the values are destroyed exactly once when the handles go
/// a formatter sink that fails (or panics) once `room` bytes have been taken
struct Tight {
    room: usize,
    panics: bool,
}
struct SinkPanic;
impl std::fmt::Write for Tight {
    fn write_str(&mut self, s: &str) -> std::fmt::Result {
        if s.len() > self.room {
            self.room = 0;
            if self.panics {
                std::panic::panic_any(SinkPanic);
            }
            return Err(std::fmt::Error);
        }
        self.room -= s.len();
        Ok(())
    }
}

/// cases 49..: `{:?}` / `{}` / `{:p}` of every handle kind into a sink that fails at once, fails part-way or panics, and
/// with a payload whose own impl returns an error: formatting has `&self` only, so whatever comes out, every count,
/// value and block is as before
fn run_sink(k: usize) -> Vec<String> {
    use crate::payload::OBS_FMT_ERR;
    use std::fmt::Write as _;
    use std::sync::atomic::Ordering;
    use triomphe::{ArcUnion, OffsetArc};
    let mut errs = vec![];
    alloc::reset();
    ev::LOG.clear();
    let kind = (k - 1) / 4;
    let mode = (k - 1) % 4;
    let names = ["Arc", "ThinArc", "OffsetArc", "ArcUnion (first)", "ArcUnion (second)", "ArcBorrow", "ArcUnionBorrow", "Arc<[T]> and the value behind a UniqueArc"];
    let modes = ["a sink that fails at once", "a sink that fails part-way", "a payload impl that returns an error", "a sink that panics part-way"];
    let tag = format!("formatting {} into {}", names[kind % names.len()], modes[mode]);
    alloc::track(true);
    let a1 = Arc::new(A::mk(1));
    let a2 = a1.clone();
    let t1: ThinArc<A, A> = ThinArc::from_header_and_iter(A::mk(2), vec![A::mk(3), A::mk(4)].into_iter());
    let t2 = t1.clone();
    let o1: OffsetArc<A> = Arc::into_raw_offset(Arc::new(A::mk(5)));
    let o2 = o1.clone();
    let u1: ArcUnion<A, A> = ArcUnion::from_first(Arc::new(A::mk(6)));
    let u2: ArcUnion<u8, A> = ArcUnion::from_second(Arc::new(A::mk(7)));
    let u1b = u1.clone();
    let q = UniqueArc::new(A::mk(8));
    let sole = Arc::new(A::mk(9));
    let sl: Arc<[A]> = Arc::from(vec![A::mk(10), A::mk(11)]);
    let mut sink = Tight { room: match mode { 0 => 0, 2 => 4096, _ => 3 }, panics: mode == 3 };
    if mode == 2 {
        OBS_FMT_ERR.store(true, Ordering::SeqCst);
    }
    let r = catch_unwind(AssertUnwindSafe(|| -> std::fmt::Result {
        match kind {
            0 => {
                let r1 = write!(sink, "{:?}", a1);
                let r2 = write!(sink, "{}", a1);
                let r3 = write!(sink, "{:p}{:?}{}", sole, sole, sole);
                r1.and(r2).and(r3)
            }
            1 => write!(sink, "{:?}", t1).and(write!(sink, "{:p}", t1)),
            2 => write!(sink, "{:?}", o1),
            3 => write!(sink, "{:?}", u1),
            4 => write!(sink, "{:?}", u2),
            5 => write!(sink, "{:?}", a1.borrow_arc()).and(write!(sink, "{:?}", sole.borrow_arc())),
            6 => write!(sink, "{:?}", u1.borrow()).and(write!(sink, "{:?}", u2.borrow())),
            _ => write!(sink, "{:?}", &*q).and(write!(sink, "{:?}", sl)),
        }
    }));
    OBS_FMT_ERR.store(false, Ordering::SeqCst);
    alloc::track(false);
    match &r {
        Err(p) if mode == 3 && p.is::<SinkPanic>() => {}
        Err(_) => errs.push(format!("[panicked] {}: the call panicked", tag)),
        Ok(_) => {}
    }
    drop(r);
    let counts = [Arc::count(&a1), ThinArc::strong_count(&t1), OffsetArc::strong_count(&o1), ArcUnion::strong_count(&u1), ArcUnion::strong_count(&u2), Arc::count(&sole), Arc::count(&sl)];
    if counts != [2, 2, 2, 2, 1, 1, 1] {
        errs.push(format!("[count] {}: counts afterwards are {:?}, the handles alive say [2, 2, 2, 2, 1, 1, 1]: formatting never changes a count", tag, counts));
    }
    let ok = a1.see().ok && a2.see().ok && t1.header.header.see().ok && t2.slice.iter().all(|e| e.see().ok) && o1.see().ok && o2.see().ok
        && u1.as_first().map(|b| b.see().ok).unwrap_or(false) && u2.as_second().map(|b| b.see().ok).unwrap_or(false) && q.see().ok && sole.see().ok && sl.iter().all(|e| e.see().ok);
    if !ok {
        errs.push(format!("[poison] {}: a value is no longer intact afterwards", tag));
    }
    for e in ev::drain() {
        match e {
            Ev::Drop { .. } => errs.push(format!("[drops] {}: a value was destroyed while every handle is alive", tag)),
            Ev::BadDrop { .. } => errs.push(format!("[baddrop] {}: destructor ran on something that is not a live object", tag)),
            _ => {}
        }
    }
    alloc::track(true);
    drop((a1, a2, t1, t2, o1, o2, u1, u1b, u2, q, sole, sl));
    alloc::track(false);
    let mut drops = 0;
    for e in ev::drain() {
        match e {
            Ev::Drop { .. } => drops += 1,
            Ev::BadDrop { .. } => errs.push(format!("[baddrop] {}: destructor ran on something that is not a live object", tag)),
            _ => {}
        }
    }
    if drops != 11 {
        errs.push(format!("[drops] {}: {} destructor runs for 11 values once every handle is gone", tag, drops));
    }
    let t = alloc::table();
    if t.iter().any(|r| r.live && r.size < 200) {
        errs.push(format!("[leak] {}: a block is still allocated after every handle is gone", tag));
    }
    if t.iter().any(|r| r.frees > 1) {
        errs.push(format!("[frees] {}: a block was returned more than once", tag));
    }
    alloc::reset();
    errs
}

/// case 81: `Arc::<T>::default()` with a `Default` impl that panics: the panic propagates, no block is left, no value
/// exists that could be destroyed
fn run_default_panic() -> Vec<String> {
    struct DefaultPanic;
    #[allow(dead_code)]
    struct Dp(A);
    impl Default for Dp {
        fn default() -> Dp {
            std::panic::panic_any(DefaultPanic)
        }
    }
    let tag = "Arc::default with a panicking Default impl";
    let mut errs = vec![];
    alloc::reset();
    ev::LOG.clear();
    alloc::track(true);
    let r = catch_unwind(AssertUnwindSafe(|| {
        let a: Arc<Dp> = Default::default();
        a
    }));
    alloc::track(false);
    match r {
        Err(p) if p.is::<DefaultPanic>() => drop(p),
        Err(p) => {
            errs.push(format!("[panicked] {}: a different panic came out", tag));
            drop(p);
        }
        Ok(a) => {
            errs.push(format!("[panicked] {}: the impl's panic was swallowed", tag));
            std::mem::forget(a);
        }
    }
    for e in ev::drain() {
        match e {
            Ev::Drop { .. } => errs.push(format!("[drops] {}: a destructor ran although no value was made", tag)),
            Ev::BadDrop { .. } => errs.push(format!("[baddrop] {}: destructor ran on something that is not a live object", tag)),
            _ => {}
        }
    }
    if alloc::table().iter().any(|r| r.live && r.size < 200) {
        errs.push(format!("[leak] {}: a block is still allocated after the propagated panic", tag));
    }
    alloc::reset();
    errs
}

fn run_observer(k: usize) -> Vec<String> {
    if k > 80 {
        return run_default_panic();
    }
    if k > 48 {
        return run_sink(k - 48);
    }
    use crate::payload::{ObsPanic, OBS_PANIC};
    use std::fmt::Write as _;
    use std::hash::{Hash, Hasher};
    use std::sync::atomic::Ordering;
    use triomphe::{ArcUnion, OffsetArc};
    let mut errs = vec![];
    alloc::reset();
    ev::LOG.clear();
    // cases 1..24: the payload's impl panics; 25..48: it looks at every count while the handle-level call is in progress
    let peek = k > 24;
    let k = if peek { k - 24 } else { k };
    let kind = (k - 1) / 6;
    let meth = (k - 1) % 6;
    let names = ["Arc", "ThinArc", "OffsetArc", "ArcUnion"];
    let meths = ["eq", "partial_cmp", "cmp", "hash", "Debug", "lt"];
    let tag = if peek { format!("{}::{} with a payload impl that reads the counts", names[kind], meths[meth]) }
              else { format!("{}::{} with a panicking payload impl", names[kind], meths[meth]) };
    // (allocated before tracking starts: it outlives the reset at the end)
    let during: std::rc::Rc<std::cell::RefCell<Vec<[usize; 8]>>> = Default::default();
    during.borrow_mut().reserve(64);
    alloc::track(true);
    let (a1, a2) = (Arc::new(A::mk(1)), Arc::new(A::mk(2)));
    let (t1, t2): (ThinArc<A, u8>, ThinArc<A, u8>) = (ThinArc::from_header_and_slice(A::mk(1), &[1]), ThinArc::from_header_and_slice(A::mk(2), &[1]));
    let (o1, o2): (OffsetArc<A>, OffsetArc<A>) = (Arc::into_raw_offset(Arc::new(A::mk(1))), Arc::into_raw_offset(Arc::new(A::mk(2))));
    let (u1, u2): (ArcUnion<A, u8>, ArcUnion<A, u8>) = (ArcUnion::from_first(Arc::new(A::mk(1))), ArcUnion::from_first(Arc::new(A::mk(2))));
    let mut sink = String::with_capacity(256);
    let mut hasher = std::collections::hash_map::DefaultHasher::new();
    if peek {
        let ptrs = (&a1 as *const Arc<A>, &a2 as *const Arc<A>, &t1 as *const ThinArc<A, u8>, &t2 as *const ThinArc<A, u8>,
                    &o1 as *const OffsetArc<A>, &o2 as *const OffsetArc<A>, &u1 as *const ArcUnion<A, u8>, &u2 as *const ArcUnion<A, u8>);
        let sink = during.clone();
        alloc::track(false);
        let f: Box<dyn FnMut()> = Box::new(move || unsafe {
            let c = [Arc::count(&*ptrs.0), Arc::count(&*ptrs.1), ThinArc::strong_count(&*ptrs.2), ThinArc::strong_count(&*ptrs.3),
                     OffsetArc::strong_count(&*ptrs.4), OffsetArc::strong_count(&*ptrs.5), ArcUnion::strong_count(&*ptrs.6), ArcUnion::strong_count(&*ptrs.7)];
            let mut v = sink.borrow_mut();
            if v.len() < v.capacity() {
                v.push(c);
            }
        });
        crate::payload::OBS_HOOK.with(|h| *h.borrow_mut() = Some(f));
        alloc::track(true);
    } else {
        OBS_PANIC.store(true, Ordering::SeqCst);
    }
    let applicable = std::cell::Cell::new(true);
    let r = catch_unwind(AssertUnwindSafe(|| match (kind, meth) {
        (0, 0) => { let _ = a1 == a2; }
        (0, 1) => { let _ = a1.partial_cmp(&a2); }
        (0, 2) => { let _ = a1.cmp(&a2); }
        (0, 3) => a1.hash(&mut hasher),
        (0, 4) => { let _ = write!(sink, "{:?} {}", a1, a1); }
        (0, 5) => { let _ = a1 < a2; }
        (1, 0) => { let _ = t1 == t2; }
        (1, 1) => { let _ = t1.partial_cmp(&t2); }
        (1, 2) => { let _ = t1.cmp(&t2); }
        (1, 3) => t1.hash(&mut hasher),
        (1, 4) => { let _ = write!(sink, "{:?}", t1); }
        (1, 5) => { let _ = t1 < t2; }
        (2, 0) => { let _ = o1 == o2; }
        (2, 4) => { let _ = write!(sink, "{:?}", o1); }
        (2, 5) => { let _ = o1 != o2; }
        (3, 0) => { let _ = u1 == u2; }
        (3, 4) => { let _ = write!(sink, "{:?}", u1); }
        _ => applicable.set(false),
    }));
    let fired = !peek && !OBS_PANIC.swap(false, Ordering::SeqCst);
    alloc::track(false);
    if peek {
        let f = crate::payload::OBS_HOOK.with(|h| h.borrow_mut().take());
        drop(f);
        if r.is_err() {
            errs.push(format!("[panicked] {}: the call panicked", tag));
        }
        for c in during.borrow().iter() {
            if c.iter().any(|x| *x != 1) {
                errs.push(format!("[count] {}: while the call was in progress the counts read {:?}; comparing, hashing or formatting never changes a count, every handle is a sole owner", tag, c));
                break;
            }
        }
    }
    if applicable.get() && fired {
        match &r {
            Err(p) if p.is::<ObsPanic>() => {}
            Err(_) => errs.push(format!("[panicked] {}: a different panic came out", tag)),
            Ok(()) => errs.push(format!("[panicked] {}: the payload's panic was swallowed", tag)),
        }
    }
    drop(r);
    let counts = [Arc::count(&a1), Arc::count(&a2), ThinArc::strong_count(&t1), ThinArc::strong_count(&t2),
                  OffsetArc::strong_count(&o1), OffsetArc::strong_count(&o2), ArcUnion::strong_count(&u1), ArcUnion::strong_count(&u2)];
    if counts.iter().any(|c| *c != 1) {
        errs.push(format!("[count] {}: counts after the propagated panic are {:?}, every handle is a sole owner", tag, counts));
    }
    let ok = a1.see().ok && a2.see().ok && t1.header.header.see().ok && o1.see().ok && u1.as_first().map(|b| b.see().ok).unwrap_or(false);
    if !ok {
        errs.push(format!("[poison] {}: a value is no longer intact after the propagated panic", tag));
    }
    alloc::track(true);
    drop((a1, a2, t1, t2, o1, o2, u1, u2));
    alloc::track(false);
    let mut drops = 0;
    for e in ev::drain() {
        match e {
            Ev::Drop { .. } => drops += 1,
            Ev::BadDrop { .. } => errs.push(format!("[baddrop] {}: destructor ran on something that is not a live object", tag)),
            _ => {}
        }
    }
    if drops != 8 {
        errs.push(format!("[drops] {}: {} destructor runs for 8 values", tag, drops));
    }
    if alloc::table().iter().any(|r| r.live && r.size < 200) {
        errs.push(format!("[leak] {}: a block is still allocated after every handle is gone", tag));
    }
    drop(sink);
    alloc::reset();
    errs
}

pub const N_RELEASES: usize = 9;
struct DropPanic;
/// payload whose destructor logs itself and then panics
struct Bomb(A);
impl Drop for Bomb {
    fn drop(&mut self) {
        if !std::thread::panicking() {
            std::panic::panic_any(DropPanic);
        }
    }
}
impl std::fmt::Debug for Bomb {
    fn fmt(&self, f: &mut std::fmt::Formatter) -> std::fmt::Result {
        f.write_str("Bomb")
    }
}

fn account_release(tag: &str, blocks_expected: usize, want_drops: usize) -> Vec<String> {
    let mut errs = vec![];
    let mut drops = 0;
    for e in ev::drain() {
        match e {
            Ev::Drop { .. } => drops += 1,
            Ev::BadDrop { .. } => errs.push(format!("[baddrop] {}: a destructor ran on something that is not a live object", tag)),
            Ev::Dealloc { status, size, align, rsize, ralign, .. } if status != 0 => errs.push(format!(
                "[layout] {}: block requested as (size {}, align {}) released as (size {}, align {}), status {}", tag, rsize, ralign, size, align, status)),
            _ => {}
        }
    }
    if drops != want_drops {
        errs.push(format!("[drops] {}: {} destructor run(s), the specification says {}", tag, drops, want_drops));
    }
    let t = alloc::table();
    let live = t.iter().filter(|r| r.live).count();
    if live != 0 {
        errs.push(format!("[leak] {}: {} of {} block(s) were not returned to the allocator although the last handle is gone", tag, live, blocks_expected));
    }
    if t.iter().any(|r| r.frees > 1) {
        errs.push(format!("[frees] {}: a block was returned more than once", tag));
    }
    errs
}

/// the payload's destructor panics during the last release of a handle of kind k
fn run_release(k: usize) -> Vec<String> {
    use triomphe::{ArcUnion, OffsetArc};
    use unsize::{CoerceUnsize, Coercion};
    let names = ["Arc", "last of two Arc clones", "Arc<[T]>", "Arc<dyn Debug> (unsized)", "ThinArc (header)", "OffsetArc", "ArcUnion (second)",
                 "UniqueArc", "Arc<HeaderSlice> (element)", "UniqueArc<HeaderSlice> assumed initialised (element)",
                 "Arc<T> built by new_uninit / write / assume_init", "UniqueArc<HeaderSlice<_, [MaybeUninit]>> never initialised (header)",
                 "the old value inside Arc::make_mut (the other owner left during the clone)",
                 "the old value inside OffsetArc::make_mut (the other owner left during the clone)",
                 "the old value inside Arc::make_unique (the other owner left during the clone)",
                 "the old value inside Arc::unwrap_or_clone (the other owner left during the clone)"];
    if k >= 13 {
        return run_release_in_cow(k, &format!("last release of {} with a panicking payload destructor", names[k - 1]));
    }
    let tag = format!("last release of {} with a panicking payload destructor", names[(k - 1) % names.len()]);
    alloc::reset();
    ev::LOG.clear();
    alloc::track(true);
    let r = catch_unwind(AssertUnwindSafe(|| match k {
        1 => drop(Arc::new(Bomb(A::mk(1)))),
        2 => {
            let a = Arc::new(Bomb(A::mk(1)));
            let b = a.clone();
            drop(a);
            drop(b);
        }
        3 => drop(Arc::<[Bomb]>::from(vec![Bomb(A::mk(1))])),
        4 => {
            let d: Arc<dyn std::fmt::Debug> = Arc::new(Bomb(A::mk(1))).unsize(Coercion!(to dyn std::fmt::Debug));
            drop(d)
        }
        5 => drop(ThinArc::<Bomb, u8>::from_header_and_slice(Bomb(A::mk(1)), &[1, 2])),
        6 => drop(Arc::into_raw_offset(Arc::new(Bomb(A::mk(1))))),
        7 => drop(ArcUnion::<u64, Bomb>::from_second(Arc::new(Bomb(A::mk(1))))),
        8 => drop(UniqueArc::new(Bomb(A::mk(1)))),
        10 => {
            let mut u = UniqueArc::<triomphe::HeaderSlice<u32, [std::mem::MaybeUninit<Bomb>]>>::from_header_and_uninit_slice(7u32, 1);
            u.slice[0].write(Bomb(A::mk(1)));
            drop(unsafe { u.assume_init_slice_with_header() })
        }
        11 => {
            let mut u = UniqueArc::<Bomb>::new_uninit();
            u.write(Bomb(A::mk(1)));
            drop(unsafe { UniqueArc::assume_init(u) }.shareable())
        }
        12 => drop(UniqueArc::<triomphe::HeaderSlice<Bomb, [std::mem::MaybeUninit<u64>]>>::from_header_and_uninit_slice(Bomb(A::mk(1)), 2)),
        _ => drop(Arc::from_header_and_iter(7u32, vec![Bomb(A::mk(1))].into_iter())),
    }));
    alloc::track(false);
    let mut errs = vec![];
    match r {
        Err(p) if p.is::<DropPanic>() => {}
        Err(_) => errs.push(format!("[panicked] {}: a different panic came out", tag)),
        Ok(()) => errs.push(format!("[panicked] {}: the destructor's panic was swallowed", tag)),
    }
    errs.extend(account_release(&tag, 1, 1));
    alloc::reset();
    errs
}

/// payload whose Clone lets the other owner go and whose original panics in its destructor
struct Armed {
    a: A,
    armed: bool,
}
thread_local! {
    static SIBLING: std::cell::RefCell<Option<Box<dyn std::any::Any>>> = const { std::cell::RefCell::new(None) };
}
impl Clone for Armed {
    fn clone(&self) -> Armed {
        // the other owner of the value being cloned goes away now
        let s = SIBLING.with(|s| s.borrow_mut().take());
        drop(s);
        Armed { a: self.a.clone(), armed: false }
    }
}
impl Drop for Armed {
    fn drop(&mut self) {
        if self.armed && !std::thread::panicking() {
            std::panic::panic_any(DropPanic);
        }
    }
}

/// make_mut / make_unique / unwrap_or_clone on a shared handle whose other owner leaves during the clone: the call
/// releases the old value as its last owner; the old value's destructor panics. The panic propagates, the old value
/// is destroyed once and its block freed, and the handle that survives the call is a valid sole owner of the copy.
fn run_release_in_cow(k: usize, tag: &str) -> Vec<String> {
    use triomphe::OffsetArc;
    let mut errs = vec![];
    alloc::reset();
    ev::LOG.clear();
    alloc::track(true);
    let orig = Arc::new(Armed { a: A::mk(1), armed: true });
    let old_block = orig.heap_ptr() as usize;
    let old_id = orig.a.see().id;
    SIBLING.with(|s| *s.borrow_mut() = Some(Box::new(orig.clone())));
    // what survives the call: (block it points at, how to release it)
    let mut arc_h: Option<Arc<Armed>> = None;
    let mut off_h: Option<OffsetArc<Armed>> = None;
    if k == 14 {
        off_h = Some(Arc::into_raw_offset(orig));
    } else {
        arc_h = Some(orig);
    }
    let r = catch_unwind(AssertUnwindSafe(|| match k {
        13 => {
            let _ = Arc::make_mut(arc_h.as_mut().unwrap());
        }
        14 => {
            let _ = off_h.as_mut().unwrap().make_mut();
        }
        15 => {
            let _ = Arc::make_unique(arc_h.as_mut().unwrap());
        }
        _ => {
            let v = Arc::unwrap_or_clone(arc_h.take().unwrap());
            drop(v);
        }
    }));
    alloc::track(false);
    match r {
        Err(p) if p.is::<DropPanic>() => {}
        Err(_) => errs.push(format!("[panicked] {}: a different panic came out", tag)),
        Ok(()) => errs.push(format!("[panicked] {}: the destructor's panic was swallowed", tag)),
    }
    SIBLING.with(|s| {
        if s.borrow().is_some() {
            errs.push(format!("[harness] {}: the clone did not run", tag));
        }
    });
    // the surviving handle
    let block = arc_h.as_ref().map(|a| a.heap_ptr() as usize).or_else(|| off_h.as_ref().map(|o| o.with_arc(|a| a.heap_ptr() as usize)));
    if let Some(b) = block {
        let live = alloc::lookup(b).map(|r| r.live).unwrap_or(false);
        if !live || b == old_block {
            errs.push(format!("[poison] {}: the handle that survives the call points at {} block, which has been released: it must own the fresh copy", tag,
                              if b == old_block { "the old" } else { "a" }));
            // do not touch it again
            std::mem::forget(arc_h.take());
            std::mem::forget(off_h.take());
        } else {
            let (count, ok) = match (&arc_h, &off_h) {
                (Some(a), _) => (Arc::count(a), a.a.see().ok && !a.armed),
                (_, Some(o)) => (OffsetArc::strong_count(o), o.a.see().ok && !o.armed),
                _ => (1, true),
            };
            if count != 1 || !ok {
                errs.push(format!("[count] {}: the handle that survives the call reports count {} (intact copy: {}); it is the sole owner of the fresh copy", tag, count, ok));
            }
            alloc::track(true);
            drop(arc_h.take());
            drop(off_h.take());
            alloc::track(false);
        }
    }
    let mut old_drops = 0;
    for e in ev::drain() {
        match e {
            Ev::Drop { id, .. } if id == old_id => old_drops += 1,
            Ev::BadDrop { .. } => errs.push(format!("[baddrop] {}: a destructor ran on something that is not a live object", tag)),
            Ev::Dealloc { status, size, align, rsize, ralign, .. } if status != 0 => errs.push(format!(
                "[layout] {}: block requested as (size {}, align {}) released as (size {}, align {}), status {}", tag, rsize, ralign, size, align, status)),
            _ => {}
        }
    }
    if old_drops != 1 {
        errs.push(format!("[drops] {}: the old value was destroyed {} time(s)", tag, old_drops));
    }
    for rec in alloc::table() {
        if rec.size < 200 && (rec.live || rec.frees != 1) {
            errs.push(format!("[leak] {}: a block of {} bytes was released {} time(s){}", tag, rec.size, rec.frees, if rec.live { " and is still allocated" } else { "" }));
        }
    }
    alloc::reset();
    errs
}

/// ArcUnion over two payload types of the same size and alignment, one plain data, one with a destructor
fn run_union_drop(k: usize) -> Vec<String> {
    use triomphe::ArcUnion;
    // A is 12 bytes, align 4, with a destructor; [u32; 3] has the same layout and none
    let tag = format!("ArcUnion<plain, droppable> / <droppable, plain> with equal layouts, case {}", k);
    alloc::reset();
    ev::LOG.clear();
    alloc::track(true);
    let want = match k {
        1 => {
            drop(ArcUnion::<[u32; 3], A>::from_second(Arc::new(A::mk(1))));
            1
        }
        2 => {
            drop(ArcUnion::<A, [u32; 3]>::from_first(Arc::new(A::mk(1))));
            1
        }
        3 => {
            let u = ArcUnion::<[u32; 3], A>::from_second(Arc::new(A::mk(1)));
            let v = u.clone();
            drop(u);
            drop(v);
            1
        }
        _ => {
            drop(ArcUnion::<[u32; 3], A>::from_first(Arc::new([1, 2, 3])));
            0
        }
    };
    alloc::track(false);
    let errs = account_release(&tag, 1, want);
    alloc::reset();
    errs
}

/// zero-sized payload with a destructor and a counted Clone
struct Zp;
static ZP_DROPS: std::sync::atomic::AtomicUsize = std::sync::atomic::AtomicUsize::new(0);
static ZP_MADE: std::sync::atomic::AtomicUsize = std::sync::atomic::AtomicUsize::new(0);
impl Zp {
    fn mk() -> Zp {
        ZP_MADE.fetch_add(1, std::sync::atomic::Ordering::SeqCst);
        Zp
    }
}
impl Clone for Zp {
    fn clone(&self) -> Zp {
        Zp::mk()
    }
}
impl Default for Zp {
    fn default() -> Zp {
        Zp::mk()
    }
}
impl Drop for Zp {
    fn drop(&mut self) {
        ZP_DROPS.fetch_add(1, std::sync::atomic::Ordering::SeqCst);
    }
}
impl std::fmt::Debug for Zp {
    fn fmt(&self, f: &mut std::fmt::Formatter) -> std::fmt::Result {
        f.write_str("Zp")
    }
}

pub const N_ZST: usize = 24;
fn run_zst(k: usize) -> Vec<String> {
    use std::sync::atomic::Ordering::SeqCst;
    use triomphe::{ArcUnion, OffsetArc};
    use unsize::{CoerceUnsize, Coercion};
    // expected number of values created (the original and each clone the path must make), where the path fixes it
    let want_made: [usize; 24] = [1, 1, 1, 1, 1, 1, 2, 2, 2, 1, 1, 1, 1, 1, 1, 1, 1, 1, 1, 1, 2, 1, 0, 3];
    let names = ["new / drop", "clone / drop both", "try_unwrap (sole owner)", "try_unwrap (shared)", "UniqueArc::into_inner", "unwrap_or_clone (sole owner)",
                 "unwrap_or_clone (shared)", "make_mut (shared)", "make_unique (shared)", "from Box", "Default", "OffsetArc round trip and clone_arc",
                 "ArcUnion second variant, clone", "unsized to dyn Debug", "new_uninit / write / assume_init", "into_raw / from_raw, borrow_arc().clone_arc()", "get_mut on a shared handle", "try_unique on a shared handle",
                 "is_unique shared / sole", "get_mut and try_unique on a sole owner", "OffsetArc::make_mut (shared)", "deprecated Arc::write on a shared handle",
                 "(zero-sized ELEMENTS) a header-slice of more than isize::MAX unit elements, fat -> thin -> fat -> thin",
                 "(zero-sized ELEMENTS) new_uninit_slice of a zero-sized type: UniqueArc and Arc, written, assumed initialised"];
    let tag = format!("zero-sized payload with a destructor through: {}", names[(k - 1) % names.len()]);
    alloc::reset();
    ev::LOG.clear();
    ZP_DROPS.store(0, SeqCst);
    ZP_MADE.store(0, SeqCst);
    let mut errs = vec![];
    let gate: std::cell::RefCell<Vec<&'static str>> = std::cell::RefCell::new(Vec::with_capacity(4));
    alloc::track(true);
    let r = catch_unwind(AssertUnwindSafe(|| match k {
        1 => drop(Arc::new(Zp::mk())),
        2 => {
            let a = Arc::new(Zp::mk());
            let b = a.clone();
            drop(a);
            drop(b);
        }
        3 => drop(Arc::try_unwrap(Arc::new(Zp::mk())).ok()),
        4 => {
            let a = Arc::new(Zp::mk());
            let b = a.clone();
            let r = Arc::try_unwrap(a);
            drop(b);
            drop(r);
        }
        5 => drop(UniqueArc::into_inner(UniqueArc::new(Zp::mk()))),
        6 => drop(Arc::unwrap_or_clone(Arc::new(Zp::mk()))),
        7 => {
            let a = Arc::new(Zp::mk());
            let b = a.clone();
            let v = Arc::unwrap_or_clone(a);
            drop(b);
            drop(v);
        }
        8 => {
            let mut a = Arc::new(Zp::mk());
            let b = a.clone();
            let _ = Arc::make_mut(&mut a);
            if Arc::ptr_eq(&a, &b) || Arc::count(&a) != 1 || Arc::count(&b) != 1 {
                gate.borrow_mut().push("make_mut on a shared handle left it on the shared allocation");
            }
            drop(b);
            drop(a);
        }
        9 => {
            let mut a = Arc::new(Zp::mk());
            let b = a.clone();
            let _ = Arc::make_unique(&mut a);
            if Arc::ptr_eq(&a, &b) || Arc::count(&a) != 1 || Arc::count(&b) != 1 {
                gate.borrow_mut().push("make_unique on a shared handle left it on the shared allocation");
            }
            drop(a);
            drop(b);
        }
        10 => drop(Arc::<Zp>::from(Box::new(Zp::mk()))),
        11 => drop(Arc::<Zp>::default()),
        12 => {
            let o = Arc::into_raw_offset(Arc::new(Zp::mk()));
            let a = o.clone_arc();
            let o2 = o.clone();
            drop(Arc::from_raw_offset(o));
            drop(a);
            drop(o2);
        }
        13 => {
            let u: ArcUnion<u64, Zp> = ArcUnion::from_second(Arc::new(Zp::mk()));
            let v = u.clone();
            drop(u);
            drop(v);
        }
        14 => {
            let d: Arc<dyn std::fmt::Debug> = Arc::new(Zp::mk()).unsize(Coercion!(to dyn std::fmt::Debug));
            let e = d.clone();
            drop(d);
            drop(e);
        }
        15 => {
            let mut u = UniqueArc::<Zp>::new_uninit();
            u.write(Zp::mk());
            drop(unsafe { UniqueArc::assume_init(u) }.shareable())
        }
        16 => {
            let a = Arc::new(Zp::mk());
            let c = a.borrow_arc().clone_arc();
            let p = Arc::into_raw(a);
            drop(unsafe { Arc::from_raw(p) });
            drop(c);
        }
        17 => {
            let mut a = Arc::new(Zp::mk());
            let b = a.clone();
            if Arc::get_mut(&mut a).is_some() {
                gate.borrow_mut().push("get_mut granted access although another owner exists");
            }
            drop((a, b));
        }
        18 => {
            let a = Arc::new(Zp::mk());
            let b = a.clone();
            match Arc::try_unique(a) {
                Ok(_) => gate.borrow_mut().push("try_unique succeeded although another owner exists"),
                Err(a) => drop(a),
            }
            drop(b);
        }
        19 => {
            let a = Arc::new(Zp::mk());
            let b = a.clone();
            if a.is_unique() {
                gate.borrow_mut().push("is_unique is true although another owner exists");
            }
            drop(b);
            if !a.is_unique() {
                gate.borrow_mut().push("is_unique is false for the only owner");
            }
        }
        20 => {
            let mut a = Arc::new(Zp::mk());
            if Arc::get_mut(&mut a).is_none() {
                gate.borrow_mut().push("get_mut refused the only owner");
            }
            if Arc::try_unique(a).is_err() {
                gate.borrow_mut().push("try_unique refused the only owner");
            }
        }
        21 => {
            let mut o = Arc::into_raw_offset(Arc::new(Zp::mk()));
            let p = o.clone();
            let _ = o.make_mut();
            let separate = o.with_arc(|x| p.with_arc(|y| !Arc::ptr_eq(x, y)));
            if !separate {
                gate.borrow_mut().push("OffsetArc::make_mut on a shared handle left it on the shared allocation");
            }
            drop((o, p));
        }
        23 => {
            use triomphe::HeaderWithLength;
            for n in [isize::MAX as usize, isize::MAX as usize + 1, usize::MAX] {
                let v: Vec<()> = vec![(); n];
                let f = Arc::from_header_and_vec(HeaderWithLength::new(7u8, n), v);
                if f.slice.len() != n {
                    gate.borrow_mut().push("a fat Arc over n unit elements reports a different slice length");
                }
                let t = Arc::into_thin(f);
                if t.slice.len() != n || t.header.length != n || t.with_arc(|a| a.slice.len()) != n {
                    gate.borrow_mut().push("a ThinArc over n > isize::MAX unit elements shows a slice length other than the recorded one");
                }
                let f = Arc::from_thin(t);
                let t = Arc::into_thin(f);
                drop(t.clone());
                drop(t);
            }
        }
        24 => {
            let mut u = UniqueArc::<[std::mem::MaybeUninit<Zp>]>::new_uninit_slice(3);
            if u.len() != 3 {
                gate.borrow_mut().push("new_uninit_slice of a zero-sized type does not have the length asked for");
            }
            for i in 0..3 {
                u[i].write(Zp::mk());
            }
            drop(unsafe { UniqueArc::assume_init_slice(u) });
            let a = Arc::<[std::mem::MaybeUninit<Zp>]>::new_uninit_slice(0);
            if a.len() != 0 {
                gate.borrow_mut().push("Arc::new_uninit_slice(0) of a zero-sized type is not empty");
            }
            drop(a);
        }
        _ => {
            #[allow(deprecated)]
            {
                let mut a: Arc<std::mem::MaybeUninit<Zp>> = Arc::new_uninit();
                let b = a.clone();
                let r = catch_unwind(AssertUnwindSafe(|| {
                    a.write(Zp::mk());
                }));
                if r.is_ok() {
                    gate.borrow_mut().push("the deprecated Arc::write did not panic on a shared handle");
                    ZP_DROPS.fetch_add(1, SeqCst); // the value written into a MaybeUninit is never destroyed by the crate
                }
                drop((a, b));
            }
        }
    }));
    alloc::track(false);
    if r.is_err() {
        errs.push(format!("[panicked] {}: the path panicked", tag));
    }
    for g in gate.borrow().iter() {
        errs.push(format!("[{}] {}: {}", if k == 23 { "thin" } else if k == 24 { "contents" } else { "verdict" }, tag, g));
    }
    let (made, drops) = (ZP_MADE.load(SeqCst), ZP_DROPS.load(SeqCst));
    if made != want_made[(k - 1) % want_made.len()] {
        errs.push(format!("[ncl] {}: {} value(s) exist(ed) in total, the path creates {} (the original plus the clones it must make)", tag, made, want_made[(k - 1) % want_made.len()]));
    }
    if made != drops {
        errs.push(format!("[drops] {}: {} value(s) were created (the original and each clone), {} destructor run(s) happened", tag, made, drops));
    }
    for e in ev::drain() {
        if let Ev::Dealloc { status, size, align, rsize, ralign, .. } = e {
            if status != 0 {
                errs.push(format!("[layout] {}: block requested as (size {}, align {}) released as (size {}, align {}), status {}", tag, rsize, ralign, size, align, status));
            }
        }
    }
    for rec in alloc::table() {
        if rec.live || rec.frees != 1 {
            errs.push(format!("[leak] {}: a block of {} bytes was released {} time(s)", tag, rec.size, rec.frees));
        }
    }
    alloc::reset();
    errs
}

pub fn run_case(c: &Value, variant: usize) -> Vec<String> {
    if c["ctor"].as_str() == Some("zst") {
        return run_zst(c["k"].as_u64().unwrap_or(1) as usize);
    }
    if c["ctor"].as_str() == Some("observe") {
        return run_observer(c["k"].as_u64().unwrap_or(1) as usize);
    }
    if c["ctor"].as_str() == Some("release") {
        return run_release(c["k"].as_u64().unwrap_or(1) as usize);
    }
    if c["ctor"].as_str() == Some("union_drop") {
        return run_union_drop(c["k"].as_u64().unwrap_or(1) as usize);
    }
    let g = |k: &str| c[k].as_u64().unwrap_or(0) as usize;
    let ctor = c["ctor"].as_str().unwrap_or("?");
    let (a, k, l1, l2, lo, up, cap) = (g("a"), g("k"), g("l1"), g("l2"), g("lo"), g("up"), g("cap"));
    // 97: a reported length whose size in bytes wraps around to zero
    let wrap = |x: usize| if x == 97 { usize::MAX / std::mem::size_of::<E>() + 1 } else { x };
    let (l1, l2, lo, up) = (wrap(l1), wrap(l2), wrap(lo), wrap(up));
    let xres = c["result"].as_str().unwrap_or("?");
    let mut errs: Vec<String> = vec![];
    if g("afail") == 1 {
        return errs; // allocation-failure cases run in child processes (tvh allocfail)
    }
    alloc::reset();
    ev::LOG.clear();
    let mut ids: Vec<u32> = Vec::with_capacity(a + 1);
    let mut hid = 0u32;
    // ---- inputs (created under tracking so that the source container's storage is observable)
    alloc::track(true);
    let built = catch_unwind(AssertUnwindSafe(|| {
        let mut v: Vec<E> = Vec::with_capacity(cap.max(a));
        for i in 0..a {
            let e = E::mk(1000 + i as u32);
            ids.push(e.see().id);
            v.push(e);
        }
        let up_o = if up == 99 { None } else if up == 98 { Some(usize::MAX / 2) } else { Some(up) };
        let mk_iter = |v: Vec<E>, lens: Vec<usize>, hints: Vec<(usize, Option<usize>)>| Faulty {
            inner: v.into_iter(), calls: 0, k, liar: lens.iter().any(|l| *l != a), lens, len_calls: Cell::new(0), hints, hint_calls: Cell::new(0),
        };
        match ctor {
            "fhi" if variant == 1 => {
                hid = crate::payload::ZID;
                Built::FatZ(Arc::from_header_and_iter(crate::payload::Zh, mk_iter(v, vec![l1], vec![(l1, Some(l1))])))
            }
            "thin" if variant == 1 => {
                hid = crate::payload::ZID;
                Built::ThinZ(ThinArc::from_header_and_iter(crate::payload::Zh, mk_iter(v, vec![l1, l2], vec![(l1, Some(l1))])))
            }
            "fhi" => {
                let h = A::mk(5);
                hid = h.see().id;
                Built::Fat(Arc::from_header_and_iter(h, mk_iter(v, vec![l1], vec![(l1, Some(l1))])))
            }
            "thin" => {
                let h = A::mk(5);
                hid = h.see().id;
                Built::Thin(ThinArc::from_header_and_iter(h, mk_iter(v, vec![l1, l2], vec![(l1, Some(l1))])))
            }
            "collect" => {
                let hints = if Some(lo) == up_o { vec![(lo, up_o), (l2, Some(l2))] } else { vec![(lo, up_o)] };
                let it = mk_iter(v, vec![l2], hints);
                if variant % 2 == 0 {
                    Built::Slice(it.collect::<Arc<[E]>>())
                } else {
                    Built::Uq(it.collect::<UniqueArc<[E]>>())
                }
            }
            "vec" => {
                if variant % 2 == 0 {
                    Built::Slice(Arc::<[E]>::from(v))
                } else {
                    let h = A::mk(5);
                    hid = h.see().id;
                    Built::Fat(Arc::from_header_and_vec(h, v))
                }
            }
            "slice" => {
                drop(v);
                ids.clear();
                let src: Vec<u16> = (0..a).map(|i| (i * 7 + 1) as u16).collect();
                match variant % 3 {
                    0 => {
                        let h = A::mk(5);
                        hid = h.see().id;
                        Built::HBytes(Arc::from_header_and_slice(h, &src), src)
                    }
                    1 => {
                        let h = A::mk(5);
                        hid = h.see().id;
                        Built::ThinBytes(ThinArc::from_header_and_slice(h, &src), src)
                    }
                    _ => {
                        let b: Vec<u8> = src.iter().map(|x| *x as u8).collect();
                        Built::Bytes(Arc::<[u8]>::from(&b[..]), b)
                    }
                }
            }
            _ => {
                drop(v);
                ids.clear();
                // exactly `a` bytes, with two- and three-byte characters mixed in wherever they fit
                let mut s = String::new();
                let mut i = 0usize;
                while s.len() < a {
                    let left = a - s.len();
                    if i % 7 == 6 && left >= 3 {
                        s.push('\u{20ac}');
                    } else if i % 5 == 3 && left >= 2 {
                        s.push('\u{e9}');
                    } else {
                        s.push((b'a' + (i % 26) as u8) as char);
                    }
                    i += 1;
                }
                match variant % 3 {
                    0 => Built::Str(Arc::<str>::from(&s[..]), s),
                    1 => {
                        // an owned String with spare capacity: only its initialised prefix is the input
                        let mut t = String::with_capacity(s.len() + cap as usize + 5);
                        t.push_str(&s);
                        Built::Str(Arc::<str>::from(t), s)
                    }
                    _ => {
                        let h = A::mk(5);
                        hid = h.see().id;
                        Built::HStr(Arc::from_header_and_str(h, &s), s)
                    }
                }
            }
        }
    }));
    alloc::track(false);
    // ---- what came out
    let mut foreign_panic = false;
    let mut early: Vec<Ev> = vec![];
    let observed_ok = built.is_ok();
    let tag = format!("{} a={} k={} l1={} l2={} hint=({},{}) cap={} variant={}", ctor, a, k, l1, l2, lo, if up == 99 { "None".to_string() } else if up == 98 { "usize::MAX/2".to_string() } else { up.to_string() }, cap, variant);
    match built {
        Ok(b) => {
            // contents must be exactly the input, in order, and the handle a sole owner
            let (len, got, rc, hdr_ok): (usize, Vec<u32>, usize, bool) = match &b {
                Built::Fat(x) => (x.slice.len(), x.slice.iter().map(|e| e.see().id).collect(), Arc::count(x), x.header.see().id == hid && x.header.see().ok),
                Built::Thin(x) => {
                    if x.header.length != x.slice.len() {
                        errs.push(format!("[thin] {}: ThinArc records length {} for a slice of {}", tag, x.header.length, x.slice.len()));
                    }
                    (x.slice.len(), x.slice.iter().take(a + 4).map(|e| e.see().id).collect(), ThinArc::strong_count(x), x.header.header.see().id == hid && x.header.header.see().ok)
                }
                Built::FatZ(x) => (x.slice.len(), x.slice.iter().map(|e| e.see().id).collect(), Arc::count(x), true),
                Built::ThinZ(x) => {
                    if x.header.length != x.slice.len() {
                        errs.push(format!("[thin] {}: ThinArc records length {} for a slice of {}", tag, x.header.length, x.slice.len()));
                    }
                    (x.slice.len(), x.slice.iter().take(a + 4).map(|e| e.see().id).collect(), ThinArc::strong_count(x), true)
                }
                Built::Slice(x) => (x.len(), x.iter().map(|e| e.see().id).collect(), Arc::count(x), true),
                Built::Uq(x) => (x.len(), x.iter().map(|e| e.see().id).collect(), 1, true),
                Built::Bytes(x, src) => {
                    if &x[..] != &src[..] {
                        errs.push(format!("[contents] {}: bytes differ from the input", tag));
                    }
                    (x.len(), vec![], Arc::count(x), true)
                }
                Built::Str(x, src) => {
                    if &x[..] != &src[..] {
                        errs.push(format!("[contents] {}: string differs from the input", tag));
                    }
                    (x.len(), vec![], Arc::count(x), true)
                }
                Built::HStr(x, src) => {
                    if &x.slice != &src[..] {
                        errs.push(format!("[contents] {}: string differs from the input", tag));
                    }
                    (x.slice.len(), vec![], Arc::count(x), x.header.see().id == hid && x.header.see().ok)
                }
                Built::HBytes(x, src) => {
                    if x.slice != src[..] {
                        errs.push(format!("[contents] {}: elements differ from the input", tag));
                    }
                    (x.slice.len(), vec![], Arc::count(x), x.header.see().id == hid && x.header.see().ok)
                }
                Built::ThinBytes(x, src) => {
                    if x.slice != src[..] || x.header.length != src.len() {
                        errs.push(format!("[contents] {}: elements / recorded length differ from the input", tag));
                    }
                    (x.slice.len(), vec![], ThinArc::strong_count(x), x.header.header.see().id == hid && x.header.header.see().ok)
                }
            };
            if len != a || (!ids.is_empty() && got != ids) {
                errs.push(format!("[contents] {}: the handle exposes {} element(s) {:?}, the input was {} element(s) {:?}", tag, len, &got[..got.len().min(6)], a, &ids[..ids.len().min(6)]));
            }
            if !hdr_ok {
                errs.push(format!("[value] {}: header is not the one given", tag));
            }
            if rc != 1 {
                errs.push(format!("[count] {}: a fresh handle reports count {}", tag, rc));
            }
            if xres != "ok" && errs.is_empty() {
                // the specification expects a refusal; a valid, complete handle is within the property
            } else if xres != "ok" {
                errs.push(format!("[panicked] {}: the constructor returned a handle, the specification says it must refuse ({})", tag, xres));
            }
            // nothing that was given to the constructor may have been destroyed while the handle is alive
            early = ev::drain();
            for e in &early {
                if let Ev::Drop { id, .. } = e {
                    if *id == hid || ids.contains(id) {
                        errs.push(format!("[drops] {}: {} was destroyed by the constructor although the handle it returned is alive", tag,
                                          if *id == hid { "the header" } else { "an element" }));
                    }
                }
            }
            alloc::track(true);
            let r = catch_unwind(AssertUnwindSafe(move || drop(b)));
            alloc::track(false);
            if r.is_err() {
                errs.push(format!("[drain] {}: dropping the handle panicked", tag));
            }
        }
        Err(p) => {
            if !p.is::<IterPanic>() && k != 0 && false {
                foreign_panic = true;
            }
            if xres == "ok" {
                errs.push(format!("[panicked] {}: the constructor panicked, the specification says it succeeds", tag));
            }
            drop(p);
        }
    }
    let _ = foreign_panic;
    // ---- accounting after everything that can be dropped has been dropped
    let mut evs = early;
    evs.extend(ev::drain());
    let mut drops: std::collections::HashMap<u32, u32> = Default::default();
    for e in &evs {
        match e {
            Ev::Drop { id, .. } => *drops.entry(*id).or_default() += 1,
            Ev::BadDrop { addr, magic } => errs.push(format!(
                "[baddrop] {}: a destructor ran on a slot that holds no object at {:#x} (magic {:#x}: {})", tag, addr, magic,
                if *magic == 0xA5A5A5A5 { "never written" } else { "freed or already destroyed" })),
            Ev::Dealloc { status, size, align, rsize, ralign, .. } if *status != 0 => errs.push(format!(
                "[layout] {}: a block requested as (size {}, align {}) was released as (size {}, align {}), status {}", tag, rsize, ralign, size, align, status)),
            _ => {}
        }
    }
    for (i, id) in ids.iter().enumerate() {
        let d = *drops.get(id).unwrap_or(&0);
        let leak_ok = c["leak_ok"][i].as_u64().unwrap_or(0) == 1;
        if d > 1 {
            errs.push(format!("[drops] {}: element {} destroyed {} times", tag, i + 1, d));
        } else if d == 0 && !(leak_ok && !observed_ok) {
            errs.push(format!("[leak] {}: element {} was never destroyed (it is not in the leaked half-built block the specification tolerates)", tag, i + 1));
        }
    }
    if hid != 0 {
        let d = *drops.get(&hid).unwrap_or(&0);
        let may_leak = c["hdr"].as_str() == Some("block") && !observed_ok;
        if d > 1 || (d == 0 && !may_leak) {
            errs.push(format!("[drops] {}: header destroyed {} time(s)", tag, d));
        }
    }
    if alloc::overruns() > 0 {
        errs.push(format!("[overrun] {}: {} block(s) were written past their end (red zone damaged)", tag, alloc::overruns()));
    }
    let live: Vec<_> = alloc::table().into_iter().filter(|r| r.live).collect();
    let block_may_leak = c["block"].as_str() == Some("leaked") && !observed_ok;
    if live.len() > if block_may_leak { 1 } else { 0 } {
        errs.push(format!("[leak] {}: {} allocation(s) still live ({} bytes first); the specification tolerates {}", tag, live.len(), live[0].size, if block_may_leak { "only the half-built block" } else { "none" }));
    }
    alloc::reset();
    errs
}

pub fn run(cases_path: &str, out_path: &str) {
    let txt = std::fs::read_to_string(cases_path).unwrap();
    let mut n = 0usize;
    let mut nontrivial = 0usize;
    let mut viol: Vec<Value> = vec![];
    let mut samples: Vec<Value> = vec![];
    let mut sigs: std::collections::HashMap<String, usize> = Default::default();
    for line in txt.lines() {
        let l = line.trim_end();
        let body = match l.strip_prefix("<<\"CASE\", \"").and_then(|x| x.strip_suffix("\">>")) {
            Some(b) => b.replace("\\\"", "\""),
            None => continue,
        };
        let c: Value = serde_json::from_str(&body).unwrap();
        let variants = match c["ctor"].as_str().unwrap_or("") {
            "collect" | "vec" | "fhi" | "thin" => 2,
            "slice" | "str" => 3,
            _ => 1,
        };
        for v in 0..variants {
            n += 1;
            let faulty = c["k"].as_u64() != Some(0) || c["l1"] != c["a"] || c["l2"] != c["a"] || c["result"] != "ok";
            if faulty {
                nontrivial += 1;
            }
            let errs = run_case(&c, v);
            if samples.len() < 3 && faulty && n % 211 == 0 {
                samples.push(json!({"case": c, "variant": v}));
            }
            // keep a few per (constructor, set of categories): a check that looks at some categories only must still
            // find its own among many discrepancies of another kind
            let sig = {
                let mut cats: Vec<&str> = errs.iter().map(|e| e.split(']').next().unwrap_or("")).collect();
                cats.sort();
                cats.dedup();
                format!("{}|{}", c["ctor"].as_str().unwrap_or(""), cats.join(""))
            };
            let seen = sigs.entry(sig).or_insert(0usize);
            *seen += 1;
            if !errs.is_empty() && *seen <= 5 && viol.len() < 400 {
                let mut cc = c.clone();
                cc["leak_ok"] = json!(cc["leak_ok"].as_array().map(|a| a.iter().take(8).cloned().collect::<Vec<_>>()));
                viol.push(json!({"case": cc, "variant": v, "errors": errs}));
            }
        }
    }
    if samples.is_empty() {
        samples.push(json!("(no sample matched the sampling rule)"));
    }
    let out = json!({"cases": n, "nontrivial": nontrivial, "violations": viol, "samples": samples});
    std::fs::write(out_path, serde_json::to_string_pretty(&out).unwrap()).unwrap();
    std::process::exit(if out["violations"].as_array().unwrap().is_empty() { 0 } else { 1 });
}


/// child-process mode: the j-th allocation made by the constructor fails (returns null). The process
/// must end through the allocation-error path (abort), never by writing through the null pointer.
pub fn allocfail(ctor: &str, j: isize) {
    use std::sync::atomic::Ordering;
    let v: Vec<E> = (0..3).map(|i| E::mk(i)).collect();
    let src16: Vec<u16> = vec![1, 2, 3];
    let shared = Arc::new(A::mk(1));
    let _keep = shared.clone();
    alloc::track(true);
    alloc::FAIL_AT.store(j, Ordering::SeqCst);
    match ctor {
        "new" => { std::hint::black_box(Arc::new(A::mk(1))); },
        "unique_new" => { std::hint::black_box(UniqueArc::new(A::mk(1))); },
        "new_overaligned" => {
            #[repr(align(128))]
            struct Wide([u8; 128]);
            std::hint::black_box(Arc::new(Wide([7; 128])));
        }
        "new_large" => { std::hint::black_box(Arc::new([7u64; 100])); }
        "from_box_large" => { std::hint::black_box(Arc::<[u64; 100]>::from(Box::new([7u64; 100]))); }
        "new_uninit_overaligned" => {
            #[repr(align(128))]
            struct Wide([u8; 128]);
            std::hint::black_box(UniqueArc::<Wide>::new_uninit());
        }
        "from_box" => { std::hint::black_box(Arc::<A>::from(Box::new(A::mk(1)))); }
        "new_uninit" => { std::hint::black_box(UniqueArc::<E>::new_uninit()); }
        "new_uninit_slice" => { std::hint::black_box(UniqueArc::<[std::mem::MaybeUninit<E>]>::new_uninit_slice(3)); }
        "uninit_hdr" => { std::hint::black_box(UniqueArc::<HeaderSlice<A, [std::mem::MaybeUninit<E>]>>::from_header_and_uninit_slice(A::mk(1), 3)); }
        "fhi" => { std::hint::black_box(Arc::from_header_and_iter(A::mk(1), v.into_iter())); }
        "thin" => { std::hint::black_box(ThinArc::from_header_and_iter(A::mk(1), v.into_iter())); }
        "vec" => { std::hint::black_box(Arc::<[E]>::from(v)); }
        "slice" => { std::hint::black_box(Arc::from_header_and_slice(A::mk(1), &src16)); }
        "str" => { std::hint::black_box(Arc::<str>::from("hello")); }
        "collect_exact" => { std::hint::black_box(v.into_iter().collect::<Arc<[E]>>()); }
        "collect_inexact" => { std::hint::black_box(v.into_iter().filter(|_| true).collect::<Arc<[E]>>()); }
        "make_mut" => {
            let mut s = shared;
            Arc::make_mut(&mut s).set_val(3);
            std::mem::forget(s);
        }
        _ => {
            println!("UNKNOWN-CTOR");
            std::process::exit(2);
        }
    }
    let left = alloc::FAIL_AT.load(Ordering::SeqCst);
    alloc::track(false);
    if left > 0 {
        println!("NOALLOC fewer than {} allocation(s) were made", j);
    } else {
        println!("SURVIVED the constructor returned although its allocation failed");
    }
}
