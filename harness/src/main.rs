//! tvh: conformance harness binding the TLA+ specifications in /verif/spec to triomphe.

mod alloc;
mod compare;
mod ctor;
mod ev;
mod extract;
mod overflow;
#[cfg(feature = "cfg_a")]
mod serdeh;
mod payload;
mod sized;
mod slices;
mod swapfam;
mod thin;
mod threads;
mod uninit;
mod trace;

use serde_json::{json, Value};
use std::io::{BufRead, Write};

#[global_allocator]
static GLOBAL: alloc::TrackAlloc = alloc::TrackAlloc;

/// one exported behaviour: `<<"BEH", "{...json with \" escaped...}">>`
fn parse_beh(line: &str) -> Option<Value> {
    let l = line.trim_end();
    let body = l.strip_prefix("<<\"BEH\", \"")?.strip_suffix("\">>")?;
    let un = body.replace("\\\"", "\"");
    serde_json::from_str(&un).ok()
}

fn usage() -> ! {
    eprintln!("usage: tvh replay <family> <tlc-output> <nslots> <progress-file> <out-json> [max-violations]");
    std::process::exit(2)
}

fn replay(args: &[String]) {
    if args.len() < 5 {
        usage();
    }
    let family = args[0].as_str();
    let path = &args[1];
    let nslots: usize = args[2].parse().unwrap_or_else(|_| usage());
    let progress = &args[3];
    let out = &args[4];
    let maxv: usize = args.get(5).and_then(|s| s.parse().ok()).unwrap_or(5);
    // discrepancy categories that bear on the property being checked ("*": all). Replay stops after maxv
    // behaviours with a RELEVANT discrepancy; behaviours with only other discrepancies are kept (a few) as notes
    let relevant: Vec<String> = args.get(6).map(|s| s.split(',').map(|x| x.to_string()).collect()).unwrap_or_else(|| vec!["*".into()]);
    let is_relevant = |e: &String| -> bool {
        if relevant.iter().any(|r| r == "*") {
            return true;
        }
        match (e.find('['), e.find(']')) {
            (Some(0), Some(j)) => relevant.iter().any(|r| r == &e[1..j]) || &e[1..j] == "harness",
            _ => true,
        }
    };
    let mut n_other = 0usize;
    let only: Option<usize> = std::env::var("TVH_ONLY_LINE").ok().and_then(|s| s.parse().ok());

    let f = std::fs::File::open(path).unwrap_or_else(|e| {
        eprintln!("cannot open {}: {}", path, e);
        std::process::exit(2)
    });
    let mut prog = std::fs::OpenOptions::new().create(true).write(true).truncate(true).open(progress).unwrap();
    // violations are also appended here one by one, so that they survive a later crash of this process
    let mut viol_log = std::fs::OpenOptions::new().create(true).write(true).truncate(true).open(format!("{}.viol", out)).unwrap();
    let mut n_lines = 0usize;
    let mut n_replayed = 0usize;
    let mut n_skipped = 0usize;
    let mut n_nontrivial = 0usize;
    let mut op_hist: std::collections::BTreeMap<String, usize> = Default::default();
    let mut violations: Vec<Value> = vec![];
    let mut samples: Vec<Value> = vec![];
    let mut maxlen = 0usize;
    for line in std::io::BufReader::with_capacity(1 << 20, f).lines() {
        let line = match line {
            Ok(l) => l,
            Err(_) => continue,
        };
        if !line.starts_with("<<\"BEH\"") {
            continue;
        }
        n_lines += 1;
        if let Some(o) = only {
            if o != n_lines {
                continue;
            }
        }
        let v = match parse_beh(&line) {
            Some(v) => v,
            None => {
                eprintln!("unparsable behaviour line {}", n_lines);
                std::process::exit(2)
            }
        };
        let (h, x) = (&v["h"], &v["x"]);
        // behaviours that end in the overflow abort are exercised by the C16 child runs
        if x[3].as_u64() == Some(1) {
            n_skipped += 1;
            continue;
        }
        // crash attribution: remember which behaviour is in progress
        {
            use std::io::Seek;
            let _ = prog.seek(std::io::SeekFrom::Start(0));
            let _ = write!(prog, "{:<12}\n", n_lines);
        }
        let errs = match family {
            "sized" => sized::replay_line(nslots, h, x),
            "thin" => thin::replay_line(nslots, h, x),
            "uninit" => uninit::replay_line(nslots, h, x),
            "slices" => slices::replay_line(nslots, h, x),
            "swap" => swapfam::replay_line(nslots, h, x),
            _ => usage(),
        };
        n_replayed += 1;
        let ops = h.as_array().map(|a| a.len()).unwrap_or(0);
        maxlen = maxlen.max(ops);
        if let Some(last) = h.as_array().and_then(|a| a.last()) {
            *op_hist.entry(last[0].as_str().unwrap_or("?").to_string()).or_default() += 1;
        }
        // non-trivial: contains a kind-changing conversion, a callback frame, a borrow or a
        // uniqueness-gated call
        let nontrivial = h.as_array().map(|a| {
            a.iter().any(|o| {
                !matches!(o[0].as_str().unwrap_or(""), "New" | "Clone" | "Drop")
            })
        }).unwrap_or(false);
        if nontrivial {
            n_nontrivial += 1;
        }
        if samples.len() < 3 && ops >= 4 && nontrivial && n_lines % 997 == 0 {
            samples.push(v.clone());
        }
        if !errs.is_empty() {
            if errs.iter().any(|e| is_relevant(e)) {
                let _ = writeln!(viol_log, "{}", json!({"line": n_lines, "h": h, "x": x, "errors": errs}));
                let _ = viol_log.flush();
                violations.push(json!({"line": n_lines, "h": h, "x": x, "errors": errs}));
                if violations.iter().filter(|v| v["errors"].as_array().map(|a| a.iter().any(|e| is_relevant(&e.as_str().unwrap_or("").to_string()))).unwrap_or(false)).count() >= maxv {
                    break;
                }
            } else {
                n_other += 1;
                if n_other <= 3 {
                    violations.push(json!({"line": n_lines, "h": h, "x": x, "errors": errs}));
                }
            }
        }
    }
    if samples.is_empty() {
        samples.push(json!("(no sample matched the sampling rule)"));
    }
    let summary = json!({
        "family": family,
        "lines": n_lines,
        "replayed": n_replayed,
        "skipped_aborted": n_skipped,
        "nontrivial": n_nontrivial,
        "max_len": maxlen,
        "last_op_histogram": op_hist,
        "violations": violations,
        "samples": samples,
    });
    std::fs::write(out, serde_json::to_string_pretty(&summary).unwrap()).unwrap();
    let _ = std::fs::remove_file(progress);
    std::process::exit(if violations.is_empty() { 0 } else { 1 });
}

fn main() {
    ev::init(1 << 16);
    if std::env::var("TVH_SHOW_PANICS").is_ok() {
        // debugging aid: show where panics (of the crate under test or of the harness) come from
        std::panic::set_hook(Box::new(|i| eprintln!("PANIC: {}", i)));
    } else {
        std::panic::set_hook(Box::new(|_| {}));
    }
    trace::install();
    let args: Vec<String> = std::env::args().skip(1).collect();
    if args.is_empty() {
        usage();
    }
    match args[0].as_str() {
        "replay" => replay(&args[1..]),
        "widths" => {
            // size of every handle type and of its Option, for several payload shapes (C11 / C12)
            use std::mem::size_of;
            use triomphe::{Arc, ArcBorrow, ArcUnion, HeaderSlice, HeaderWithLength, OffsetArc, ThinArc, UniqueArc};
            #[repr(align(64))]
            #[allow(dead_code)]
            struct Wide([u8; 64]);
            let mut rows: Vec<serde_json::Value> = vec![];
            macro_rules! row {
                ($kind:expr, $shape:expr, $t:ty) => {
                    rows.push(json!({"kind": $kind, "shape": $shape, "size": size_of::<$t>(), "option": size_of::<Option<$t>>(),
                                     "stride": size_of::<[$t; 3]>() / 3}));
                };
            }
            macro_rules! sized_rows {
                ($shape:expr, $p:ty) => {
                    row!("Arc", $shape, Arc<$p>);
                    row!("OffsetArc", $shape, OffsetArc<$p>);
                    row!("ArcBorrow", $shape, ArcBorrow<'static, $p>);
                    row!("UniqueArc", $shape, UniqueArc<$p>);
                    row!("ArcUnion", concat!($shape, " | u8"), ArcUnion<$p, u8>);
                    row!("ArcUnion", concat!("u8 | ", $shape), ArcUnion<u8, $p>);
                    row!("ArcUnion", concat!($shape, " | ", $shape), ArcUnion<$p, $p>);
                    row!("ThinArc", concat!("header ", $shape), ThinArc<$p, u32>);
                    row!("ThinArc", concat!("elements ", $shape), ThinArc<u8, $p>);
                    row!("ArcSlice", $shape, Arc<[$p]>);
                    row!("UniqueArcSlice", $shape, UniqueArc<[$p]>);
                    row!("ArcBorrowSlice", $shape, ArcBorrow<'static, [$p]>);
                    row!("ArcHeaderSlice", $shape, Arc<HeaderSlice<HeaderWithLength<$p>, [$p]>>);
                };
            }
            sized_rows!("()", ());
            sized_rows!("u8", u8);
            sized_rows!("u64", u64);
            sized_rows!("String", String);
            sized_rows!("[u8; 3]", [u8; 3]);
            sized_rows!("align 64", Wide);
            row!("ArcStr", "str", Arc<str>);
            row!("ArcDyn", "dyn Debug", Arc<dyn std::fmt::Debug>);
            row!("ArcDyn", "dyn Probe", Arc<dyn payload::Probe>);
            // which handle types can be duplicated (compile-time facts, probed through method resolution: the inherent
            // method is chosen when the bound holds, the trait's default otherwise)
            struct Probe<T: ?Sized>(std::marker::PhantomData<T>);
            trait Fallback {
                fn is_clone(&self) -> bool {
                    false
                }
                fn is_copy(&self) -> bool {
                    false
                }
            }
            impl<T: ?Sized> Fallback for Probe<T> {}
            #[allow(dead_code)]
            impl<T: Clone> Probe<T> {
                fn is_clone(&self) -> bool {
                    true
                }
            }
            macro_rules! dup {
                ($kind:expr, $t:ty) => {{
                    #[allow(dead_code)]
                    struct C<T>(std::marker::PhantomData<T>);
                    trait FbCopy {
                        fn is_copy(&self) -> bool {
                            false
                        }
                    }
                    impl<T> FbCopy for C<T> {}
                    #[allow(dead_code)]
                    impl<T: Copy> C<T> {
                        fn is_copy(&self) -> bool {
                            true
                        }
                    }
                    rows.push(json!({"kind": $kind, "fact": "duplicable", "clone": Probe::<$t>(std::marker::PhantomData).is_clone(),
                                     "copy": C::<$t>(std::marker::PhantomData).is_copy()}));
                }};
            }
            // a UniqueArc may only be duplicated by duplicating the value (a Clone impl that makes a second allocation
            // is fine): if it can be cloned, clone one and see whether the copy shares the allocation
            trait TryClone<T> {
                fn try_clone(&self, _v: &T) -> Option<T> {
                    None
                }
            }
            impl<T> TryClone<T> for Probe<T> {}
            #[allow(dead_code)]
            impl<T: Clone> Probe<T> {
                fn try_clone(&self, v: &T) -> Option<T> {
                    Some(v.clone())
                }
            }
            {
                let u = UniqueArc::new(String::from("x"));
                let c = Probe::<UniqueArc<String>>(std::marker::PhantomData).try_clone(&u);
                let shares = c.as_ref().map(|c| std::ptr::eq(&**c as *const String, &*u as *const String));
                rows.push(json!({"kind": "Unq", "fact": "clone_shares_allocation", "shares": shares}));
                std::mem::forget(c); // (never release a second handle to one allocation)
                let us: UniqueArc<[u8]> = vec![1u8, 2].into_iter().collect();
                let cs = Probe::<UniqueArc<[u8]>>(std::marker::PhantomData).try_clone(&us);
                let shares = cs.as_ref().map(|c| std::ptr::eq(c.as_ptr(), us.as_ptr()));
                rows.push(json!({"kind": "UnqSl", "fact": "clone_shares_allocation", "shares": shares}));
                std::mem::forget(cs);
            }
            // a UniqueArc lends no ArcBorrow and mints no Arc while it exists (BorrowApis("Unq") = {} in Triomphe.tla): the
            // names under which the other handle kinds do so must not resolve to anything of the crate's on a UniqueArc
            // (the payload has no such methods, so only an inherent method or a crate trait can win over the fallback)
            {
                struct Marker;
                struct Absent;
                trait NoSuch {
                    fn borrow_arc(&self) -> Absent {
                        Absent
                    }
                    fn clone_arc(&self) -> Absent {
                        Absent
                    }
                    fn borrow(&self) -> Absent {
                        Absent
                    }
                    fn with_raw_offset_arc<F, U>(&self, _f: F) -> Absent where F: FnOnce(&OffsetArc<Marker>) -> U {
                        Absent
                    }
                }
                impl NoSuch for UniqueArc<Marker> {}
                trait Outcome {
                    fn present(&self) -> bool;
                }
                impl Outcome for Absent {
                    fn present(&self) -> bool {
                        false
                    }
                }
                impl<'a> Outcome for ArcBorrow<'a, Marker> {
                    fn present(&self) -> bool {
                        true
                    }
                }
                impl Outcome for Arc<Marker> {
                    fn present(&self) -> bool {
                        true
                    }
                }
                impl<'a> Outcome for &'a Arc<Marker> {
                    fn present(&self) -> bool {
                        true
                    }
                }
                impl Outcome for OffsetArc<Marker> {
                    fn present(&self) -> bool {
                        true
                    }
                }
                impl Outcome for () {
                    fn present(&self) -> bool {
                        true
                    }
                }
                let u = UniqueArc::new(Marker);
                let (a, b, c) = (u.borrow_arc().present(), u.clone_arc().present(), u.borrow().present());
                let d = u.with_raw_offset_arc(|_| ()).present();
                for (api, present) in [("borrow_arc", a), ("clone_arc", b), ("borrow", c), ("with_raw_offset_arc", d)] {
                    rows.push(json!({"kind": "Unq", "fact": "lends", "api": api, "present": present}));
                }
                std::mem::forget(u); // (if something was minted above, do not release twice)
            }
            dup!("Arc", Arc<String>);
            dup!("Off", OffsetArc<String>);
            dup!("Uni", ArcUnion<String, u8>);
            dup!("Dyn", Arc<dyn std::fmt::Debug>);
            dup!("Thin", ThinArc<u8, u8>);
            dup!("Unq", UniqueArc<String>);
            dup!("UnqDyn", UniqueArc<dyn std::fmt::Debug>);
            dup!("UnqSl", UniqueArc<[u8]>);
            dup!("Bor", ArcBorrow<'static, String>);
            std::fs::write(&args[1], serde_json::to_string(&rows).unwrap()).unwrap();
        }
        "compare" => {
            if args.len() < 5 {
                usage();
            }
            trace::uninstall();
            compare::run(&args[1], &args[2], &args[3], &args[4]);
        }
        "threads" => {
            if args.len() < 5 {
                usage();
            }
            threads::run_many(args[1].parse().unwrap_or(1), args[2].parse().unwrap_or(2), args[3].parse().unwrap_or(20), &args[4]);
        }
        #[cfg(feature = "cfg_a")]
        "serde" => {
            if args.len() < 2 {
                usage();
            }
            serdeh::run(&args[1]);
        }
        "overflow" => {
            if args.len() < 3 {
                usage();
            }
            overflow::run(&args[1], &args[2]);
        }
        "gates" => {
            if args.len() < 2 {
                usage();
            }
            overflow::gates(&args[1]);
        }
        "inject" => {
            if args.len() < 2 {
                usage();
            }
            threads::run_injections(&args[1]);
        }
        "ctor" => {
            if args.len() < 3 {
                usage();
            }
            ctor::run(&args[1], &args[2]);
        }
        "allocfail" => {
            if args.len() < 3 {
                usage();
            }
            ctor::allocfail(&args[1], args[2].parse().unwrap_or(1));
        }
        "extract" => {
            if args.len() < 2 {
                usage();
            }
            extract::run(&args[1]);
        }
        _ => usage(),
    }
}
