//! C16 child processes: preset the count of a live allocation to a start value (the tracer tells us
//! where the count lives, so no layout knowledge is needed), call one clone entry point inside
//! catch_unwind, and say what happened. The parent compares with the specification's outcome.

use crate::ev::{self, Ev};
use crate::payload::{Pay, Probe, A, B};
use std::io::Write;
use std::panic::{catch_unwind, AssertUnwindSafe};
use std::sync::atomic::{AtomicUsize, Ordering};
use triomphe::{Arc, ArcUnion, OffsetArc, ThinArc};
use unsize::{CoerceUnsize, Coercion};

fn start_value(class: &str) -> usize {
    let imax = isize::MAX as usize;
    match class {
        "1" => 1,
        "2" => 2,
        "2^31" => 1usize << 31,
        "2^32" => 1usize << 32,
        "imax-1" => imax - 1,
        "imax" => imax,
        "imax+1" => imax + 1,
        "imax+2" => imax + 2,
        "umax-1" => usize::MAX - 1,
        "umax" => usize::MAX,
        _ => {
            println!("UNKNOWN-CLASS");
            std::process::exit(2)
        }
    }
}

/// the address of the count touched by `f`, learnt from the tracer
fn cell_of(f: impl FnOnce()) -> *const AtomicUsize {
    ev::LOG.clear();
    f();
    let mut cell = 0usize;
    for e in ev::drain() {
        if let Ev::Atomic { cell: c, op, .. } = e {
            if op != 6 {
                cell = c;
            }
        }
    }
    if cell == 0 {
        println!("NO-COUNT-OPERATION-SEEN");
        std::process::exit(2);
    }
    cell as *const AtomicUsize
}

pub fn run(entry: &str, class: &str) {
    let start = start_value(class);
    let out = std::io::stdout();
    // any panic on the way out runs this hook first: an abort that goes through the panic machinery runs user code
    // (and produces output) although the count has passed the limit
    std::panic::set_hook(Box::new(|_| {
        println!("PANIC-HOOK-RAN");
        let _ = std::io::stdout().lock().flush();
    }));
    macro_rules! go {
        ($mk:expr, $probe:expr, $clone:expr, $count:expr) => {{
            let h = $mk;
            let cell = cell_of(|| {
                let _ = $probe(&h);
            });
            unsafe { (*cell).store(start, Ordering::SeqCst) };
            let before = $count(&h);
            println!("PRESET count={:#x}", before);
            println!("CALLING");
            let _ = out.lock().flush();
            let r = catch_unwind(AssertUnwindSafe(|| {
                let c = $clone(&h);
                std::mem::forget(c);
            }));
            match r {
                Ok(()) => println!("RETURNED count={:#x}", $count(&h)),
                Err(_) => println!("CAUGHT-PANIC count={:#x}", $count(&h)),
            }
            let _ = out.lock().flush();
            std::mem::forget(h);
        }};
    }
    match entry {
        "arc" => go!(Arc::new(A::mk(1)), |h: &Arc<A>| Arc::strong_count(h), |h: &Arc<A>| h.clone(), |h: &Arc<A>| Arc::strong_count(h)),
        "arc_overaligned" => go!(Arc::new(B::mk(1)), |h: &Arc<B>| Arc::strong_count(h), |h: &Arc<B>| h.clone(), |h: &Arc<B>| Arc::strong_count(h)),
        "arc_slice" => go!(Arc::<[u32]>::from(vec![1u32, 2]), |h: &Arc<[u32]>| Arc::strong_count(h), |h: &Arc<[u32]>| h.clone(), |h: &Arc<[u32]>| Arc::strong_count(h)),
        "arc_str" => go!(Arc::<str>::from("abc"), |h: &Arc<str>| Arc::strong_count(h), |h: &Arc<str>| h.clone(), |h: &Arc<str>| Arc::strong_count(h)),
        "arc_dyn" => go!(Arc::new(A::mk(1)).unsize(Coercion!(to dyn Probe)), |h: &Arc<dyn Probe>| Arc::strong_count(h), |h: &Arc<dyn Probe>| h.clone(), |h: &Arc<dyn Probe>| Arc::strong_count(h)),
        "thin" => go!(ThinArc::<A, u32>::from_header_and_slice(A::mk(1), &[1, 2]), |h: &ThinArc<A, u32>| ThinArc::strong_count(h), |h: &ThinArc<A, u32>| h.clone(), |h: &ThinArc<A, u32>| ThinArc::strong_count(h)),
        "thin_with_arc_clone" => go!(ThinArc::<A, u32>::from_header_and_slice(A::mk(1), &[1, 2]), |h: &ThinArc<A, u32>| ThinArc::strong_count(h), |h: &ThinArc<A, u32>| h.with_arc(|a| a.clone()), |h: &ThinArc<A, u32>| ThinArc::strong_count(h)),
        "offset_clone" => go!(Arc::into_raw_offset(Arc::new(A::mk(1))), |h: &OffsetArc<A>| OffsetArc::strong_count(h), |h: &OffsetArc<A>| h.clone(), |h: &OffsetArc<A>| OffsetArc::strong_count(h)),
        "offset_clone_arc" => go!(Arc::into_raw_offset(Arc::new(A::mk(1))), |h: &OffsetArc<A>| OffsetArc::strong_count(h), |h: &OffsetArc<A>| h.clone_arc(), |h: &OffsetArc<A>| OffsetArc::strong_count(h)),
        "offset_with_arc_clone" => go!(Arc::into_raw_offset(Arc::new(A::mk(1))), |h: &OffsetArc<A>| OffsetArc::strong_count(h), |h: &OffsetArc<A>| h.with_arc(|a| a.clone()), |h: &OffsetArc<A>| OffsetArc::strong_count(h)),
        "with_raw_offset_arc_clone" => go!(Arc::new(A::mk(1)), |h: &Arc<A>| Arc::strong_count(h), |h: &Arc<A>| h.with_raw_offset_arc(|o| o.clone()), |h: &Arc<A>| Arc::strong_count(h)),
        "borrow_clone_arc" => go!(Arc::new(A::mk(1)), |h: &Arc<A>| Arc::strong_count(h), |h: &Arc<A>| h.borrow_arc().clone_arc(), |h: &Arc<A>| Arc::strong_count(h)),
        "borrow_with_arc_clone" => go!(Arc::new(A::mk(1)), |h: &Arc<A>| Arc::strong_count(h), |h: &Arc<A>| h.borrow_arc().with_arc(|a| a.clone()), |h: &Arc<A>| Arc::strong_count(h)),
        "union_first" => go!(ArcUnion::<A, B>::from_first(Arc::new(A::mk(1))), |h: &ArcUnion<A, B>| ArcUnion::strong_count(h), |h: &ArcUnion<A, B>| h.clone(), |h: &ArcUnion<A, B>| ArcUnion::strong_count(h)),
        "union_second" => go!(ArcUnion::<A, B>::from_second(Arc::new(B::mk(1))), |h: &ArcUnion<A, B>| ArcUnion::strong_count(h), |h: &ArcUnion<A, B>| h.clone(), |h: &ArcUnion<A, B>| ArcUnion::strong_count(h)),
        "refcnt_inc" => go!(Arc::new(A::mk(1)), |h: &Arc<A>| Arc::strong_count(h), |h: &Arc<A>| unsafe {
            // arc_swap::RefCnt::inc: clones through from_ptr / forget
            let p = <Arc<A> as arc_swap::RefCnt>::as_ptr(h);
            <Arc<A> as arc_swap::RefCnt>::inc(h);
            p
        }, |h: &Arc<A>| Arc::strong_count(h)),
        // clone_from: the destination (a handle to another value) becomes one more owner of the source
        "arc_clone_from" => go!(Arc::new(A::mk(1)), |h: &Arc<A>| Arc::strong_count(h), |h: &Arc<A>| {
            let mut d = Arc::new(A::mk(2));
            d.clone_from(h);
            d
        }, |h: &Arc<A>| Arc::strong_count(h)),
        "offset_clone_from" => go!(Arc::into_raw_offset(Arc::new(A::mk(1))), |h: &OffsetArc<A>| OffsetArc::strong_count(h), |h: &OffsetArc<A>| {
            let mut d = Arc::into_raw_offset(Arc::new(A::mk(2)));
            d.clone_from(h);
            d
        }, |h: &OffsetArc<A>| OffsetArc::strong_count(h)),
        "thin_clone_from" => go!(ThinArc::<A, u32>::from_header_and_slice(A::mk(1), &[1, 2]), |h: &ThinArc<A, u32>| ThinArc::strong_count(h), |h: &ThinArc<A, u32>| {
            let mut d = ThinArc::<A, u32>::from_header_and_slice(A::mk(2), &[3]);
            d.clone_from(h);
            d
        }, |h: &ThinArc<A, u32>| ThinArc::strong_count(h)),
        "union_clone_from" => go!(ArcUnion::<A, B>::from_first(Arc::new(A::mk(1))), |h: &ArcUnion<A, B>| ArcUnion::strong_count(h), |h: &ArcUnion<A, B>| {
            let mut d = ArcUnion::<A, B>::from_first(Arc::new(A::mk(2)));
            d.clone_from(h);
            d
        }, |h: &ArcUnion<A, B>| ArcUnion::strong_count(h)),
        // one more clone through a shared reference to the same handle (another thread's), right before the
        // victim's 2nd / 3rd operation on the count: a clone that reads the count and installs the increment
        // separately must still abort when the count it finally increments has passed the limit
        "arc_raced2" | "arc_raced3" => {
            let k_at = if entry == "arc_raced2" { 2 } else { 3 };
            let h = Arc::new(A::mk(1));
            let cell = cell_of(|| {
                let _ = Arc::strong_count(&h);
            });
            unsafe { (*cell).store(start, Ordering::SeqCst) };
            println!("PRESET count={:#x}", Arc::strong_count(&h));
            let hp: *const Arc<A> = &h;
            crate::trace::inject_reset();
            crate::trace::INJECT.with(|i| {
                *i.borrow_mut() = Some(Box::new(move |k: usize| {
                    if k == k_at {
                        println!("ADVERSARY-FIRED");
                        let c = unsafe { (*hp).clone() };
                        std::mem::forget(c);
                        println!("ADVERSARY-RETURNED");
                    }
                }))
            });
            println!("CALLING");
            let _ = out.lock().flush();
            let r = catch_unwind(AssertUnwindSafe(|| {
                let c = h.clone();
                std::mem::forget(c);
            }));
            crate::trace::INJECT.with(|i| *i.borrow_mut() = None);
            match r {
                Ok(()) => println!("RETURNED count={:#x}", Arc::strong_count(&h)),
                Err(_) => println!("CAUGHT-PANIC count={:#x}", Arc::strong_count(&h)),
            }
            let _ = out.lock().flush();
            std::mem::forget(h);
        }
        _ => {
            println!("UNKNOWN-ENTRY");
            std::process::exit(2);
        }
    }
    // no destructor may run on these preset counts
    std::process::exit(0);
}


/// Uniqueness gates at preset counts: a handle whose allocation records `count` owners is taken through every call
/// that decides on "am I the only owner"; the specification opens a gate iff the count is exactly 1 (Triomphe.tla,
/// `Verdict` and the `rc = 1` guards), whatever the magnitude of the count
pub fn gates(out: &str) {
    use std::mem::MaybeUninit;
    use triomphe::UniqueArc;
    let imax = isize::MAX as usize;
    let counts: Vec<usize> = vec![1, 2, 3, 257, 65537, (1 << 32) - 1, 1 << 32, (1 << 32) + 1, (1 << 33) + 1, (3 << 32) + 1, (1 << 48) + 1, imax - 1, imax];
    let mut rows = vec![];
    std::panic::set_hook(Box::new(|_| {}));
    macro_rules! set {
        ($h:expr, $probe:expr, $c:expr) => {{
            let cell = cell_of(|| {
                let _ = $probe;
            });
            unsafe { (*cell).store($c, Ordering::SeqCst) };
            cell
        }};
    }
    for &c in &counts {
        let mut row = |gate: &str, granted: bool| rows.push(serde_json::json!({"count": format!("{:#x}", c), "one": c == 1, "gate": gate, "granted": granted}));
        // is_unique / get_mut
        {
            let mut a = Arc::new(A::mk(1));
            let cell = set!(a, Arc::strong_count(&a), c);
            row("Arc::is_unique", a.is_unique());
            row("Arc::get_mut", Arc::get_mut(&mut a).is_some());
            let mut t: ThinArc<A, u8> = ThinArc::from_header_and_slice(A::mk(1), &[1, 2]);
            let tcell = set!(t, ThinArc::strong_count(&t), c);
            row("ThinArc::with_arc_mut(Arc::get_mut)", t.with_arc_mut(|x| Arc::get_mut(x).is_some()));
            unsafe {
                (*cell).store(1, Ordering::SeqCst);
                (*tcell).store(1, Ordering::SeqCst);
            }
        }
        // try_unique / TryFrom
        for which in 0..2 {
            let a = Arc::new(A::mk(1));
            let cell = set!(a, Arc::strong_count(&a), c);
            let r = if which == 0 { Arc::try_unique(a) } else { <UniqueArc<A> as std::convert::TryFrom<Arc<A>>>::try_from(a) };
            row(if which == 0 { "Arc::try_unique" } else { "UniqueArc::try_from" }, r.is_ok());
            unsafe { (*cell).store(1, Ordering::SeqCst) };
            drop(r);
        }
        // try_unwrap
        {
            let a = Arc::new(A::mk(1));
            let cell = set!(a, Arc::strong_count(&a), c);
            match Arc::try_unwrap(a) {
                Ok(v) => {
                    row("Arc::try_unwrap", true);
                    drop(v);
                }
                Err(a) => {
                    row("Arc::try_unwrap", false);
                    unsafe { (*cell).store(1, Ordering::SeqCst) };
                    drop(a);
                }
            }
        }
        // unwrap_or_clone: granted = the value itself came out (no clone was made)
        {
            let a = Arc::new(A::mk(1));
            let id = a.see().id;
            let _cell = set!(a, Arc::strong_count(&a), c);
            let v = Arc::unwrap_or_clone(a);
            row("Arc::unwrap_or_clone", v.see().id == id);
            // (when refused, the allocation keeps count - 1 owners nobody holds: left to the process exit)
        }
        // make_mut / make_unique / OffsetArc::make_mut: granted = mutation in place (same allocation)
        {
            let mut a = Arc::new(A::mk(1));
            let p0 = Arc::as_ptr(&a);
            let _cell = set!(a, Arc::strong_count(&a), c);
            let _ = Arc::make_mut(&mut a);
            row("Arc::make_mut", Arc::as_ptr(&a) == p0);
            let mut b = Arc::new(A::mk(1));
            let p0 = Arc::as_ptr(&b);
            let _cell = set!(b, Arc::strong_count(&b), c);
            let _ = Arc::make_unique(&mut b);
            row("Arc::make_unique", Arc::as_ptr(&b) == p0);
            let mut o = Arc::into_raw_offset(Arc::new(A::mk(1)));
            let p0 = &*o as *const A;
            let _cell = set!(o, OffsetArc::strong_count(&o), c);
            let _ = o.make_mut();
            row("OffsetArc::make_mut", &*o as *const A == p0);
        }
        // the deprecated writes through a possibly shared handle: granted = no panic
        #[allow(deprecated)]
        {
            let mut a: Arc<MaybeUninit<u64>> = Arc::new_uninit();
            let cell = set!(a, Arc::strong_count(&a), c);
            let r = catch_unwind(AssertUnwindSafe(|| {
                a.write(7);
            }));
            row("Arc<MaybeUninit<T>>::write (deprecated)", r.is_ok());
            unsafe { (*cell).store(1, Ordering::SeqCst) };
            let mut s: Arc<[MaybeUninit<u64>]> = Arc::new_uninit_slice(3);
            let cell = set!(s, Arc::strong_count(&s), c);
            let r = catch_unwind(AssertUnwindSafe(|| {
                s.as_mut_slice()[0].write(7);
            }));
            row("Arc<[MaybeUninit<T>]>::as_mut_slice (deprecated)", r.is_ok());
            unsafe { (*cell).store(1, Ordering::SeqCst) };
        }
    }
    std::fs::write(out, serde_json::to_string(&rows).unwrap()).unwrap();
}
