//! Interpreter for the sized family of `Triomphe.tla`: executes the specification's
//! stimuli on real triomphe handles and compares the implementation's observable state with
//! the specification's projection.

use crate::alloc;
use crate::ev::{self, Ev};
use crate::payload::{ClonePanic, Pay, Probe, Seen, A, B, CLONE_PANIC, NEXT_ID};
use serde_json::Value;
use std::alloc::Layout;
use std::panic::{catch_unwind, AssertUnwindSafe};
use std::sync::atomic::Ordering;
use triomphe::{Arc, ArcBorrow, ArcUnion, ArcUnionBorrow, OffsetArc, UniqueArc};
use unsize::{CoerceUnsize, Coercion};

pub enum H {
    ArcA(Arc<A>),
    ArcB(Arc<B>),
    OffA(OffsetArc<A>),
    OffB(OffsetArc<B>),
    Uni(ArcUnion<A, B>),
    UnqA(UniqueArc<A>),
    UnqB(UniqueArc<B>),
    RawA(*const A),
    RawB(*const B),
    Dyn(Arc<dyn Probe>),
    RawDyn(*const dyn Probe),
    UnqDyn(UniqueArc<dyn Probe>),
    BorDyn(ArcBorrow<'static, dyn Probe>),
    BorA(ArcBorrow<'static, A>),
    BorB(ArcBorrow<'static, B>),
    TArcA(*const Arc<A>),
    TArcB(*const Arc<B>),
    TOffA(*const OffsetArc<A>),
    TOffB(*const OffsetArc<B>),
}

pub enum Out {
    A(A),
    B(B),
}

/// per payload type: how to wrap typed handles into `H`
pub trait Ty: Pay + Probe {
    fn arc(a: Arc<Self>) -> H;
    fn off(a: OffsetArc<Self>) -> H;
    fn unq(a: UniqueArc<Self>) -> H;
    fn raw(a: *const Self) -> H;
    fn bor(a: ArcBorrow<'static, Self>) -> H;
    fn tarc(a: *const Arc<Self>) -> H;
    fn toff(a: *const OffsetArc<Self>) -> H;
    fn uni(a: Arc<Self>) -> ArcUnion<A, B>;
    fn out(v: Self) -> Out;
}
impl Ty for A {
    fn arc(a: Arc<A>) -> H { H::ArcA(a) }
    fn off(a: OffsetArc<A>) -> H { H::OffA(a) }
    fn unq(a: UniqueArc<A>) -> H { H::UnqA(a) }
    fn raw(a: *const A) -> H { H::RawA(a) }
    fn bor(a: ArcBorrow<'static, A>) -> H { H::BorA(a) }
    fn tarc(a: *const Arc<A>) -> H { H::TArcA(a) }
    fn toff(a: *const OffsetArc<A>) -> H { H::TOffA(a) }
    fn uni(a: Arc<A>) -> ArcUnion<A, B> { ArcUnion::from_first(a) }
    fn out(v: A) -> Out { Out::A(v) }
}
impl Ty for B {
    fn arc(a: Arc<B>) -> H { H::ArcB(a) }
    fn off(a: OffsetArc<B>) -> H { H::OffB(a) }
    fn unq(a: UniqueArc<B>) -> H { H::UnqB(a) }
    fn raw(a: *const B) -> H { H::RawB(a) }
    fn bor(a: ArcBorrow<'static, B>) -> H { H::BorB(a) }
    fn tarc(a: *const Arc<B>) -> H { H::TArcB(a) }
    fn toff(a: *const OffsetArc<B>) -> H { H::TOffB(a) }
    fn uni(a: Arc<B>) -> ArcUnion<A, B> { ArcUnion::from_second(a) }
    fn out(v: B) -> Out { Out::B(v) }
}

/// offset of the payload inside the block: what the specification's Layout.DataOffset says
pub fn data_offset<T>() -> usize {
    Layout::new::<usize>().extend(Layout::new::<T>()).unwrap().1
}

unsafe fn stat<T>(b: ArcBorrow<'_, T>) -> ArcBorrow<'static, T> {
    std::mem::transmute(b)
}

#[derive(Debug, Clone)]
pub struct Obs {
    pub kind: &'static str,
    /// the count through every accessor this kind offers (name, value)
    pub counts: Vec<(&'static str, usize)>,
    pub seen: Seen,
    /// address of the value through every accessor this kind offers
    pub datas: Vec<(&'static str, usize)>,
    /// start of the block as the handle reports it (0: kind has no accessor)
    pub heap: usize,
    /// start of the block computed from the value address and the layout
    pub heap_calc: usize,
    pub notes: Vec<String>,
}

fn obs_arc<T: Ty>(kind: &'static str, a: &Arc<T>) -> Obs {
    let mut counts = vec![("Arc::count", Arc::count(a)), ("Arc::strong_count", Arc::strong_count(a))];
    let bor = a.borrow_arc();
    counts.push(("ArcBorrow::strong_count", ArcBorrow::strong_count(&bor)));
    counts.push(("ArcBorrow::with_arc(count)", bor.with_arc(|x| Arc::count(x))));
    counts.push(("with_raw_offset_arc(strong_count)", a.with_raw_offset_arc(|o| OffsetArc::strong_count(o))));
    counts.push(("after callbacks", Arc::count(a)));
    let mut notes = vec![];
    if a.is_unique() != (Arc::count(a) == 1) {
        notes.push("is_unique disagrees with count".to_string());
    }
    let datas = vec![
        ("as_ptr", Arc::as_ptr(a) as usize),
        ("deref", &**a as *const T as usize),
        ("borrow.get", bor.get() as *const T as usize),
        ("as_ref", AsRef::<T>::as_ref(a) as *const T as usize),
    ];
    Obs {
        kind,
        counts,
        seen: (**a).see(),
        heap: a.heap_ptr() as usize,
        heap_calc: Arc::as_ptr(a) as usize - data_offset::<T>(),
        datas,
        notes,
    }
}

fn obs_off<T: Ty>(kind: &'static str, o: &OffsetArc<T>) -> Obs {
    let counts = vec![
        ("OffsetArc::strong_count", OffsetArc::strong_count(o)),
        ("OffsetArc::with_arc(count)", o.with_arc(|a| Arc::count(a))),
        ("borrow_arc.strong_count", ArcBorrow::strong_count(&o.borrow_arc())),
        ("after callbacks", OffsetArc::strong_count(o)),
    ];
    let bits: usize = unsafe { std::mem::transmute_copy(o) };
    let datas = vec![("deref", &**o as *const T as usize), ("bits", bits)];
    Obs {
        kind,
        counts,
        seen: (**o).see(),
        heap: o.with_arc(|a| a.heap_ptr() as usize),
        heap_calc: (&**o as *const T as usize) - data_offset::<T>(),
        datas,
        notes: vec![],
    }
}

fn obs_bor<T: Ty>(b: &ArcBorrow<'static, T>) -> Obs {
    let counts = vec![
        ("ArcBorrow::strong_count", ArcBorrow::strong_count(b)),
        ("ArcBorrow::with_arc(count)", b.with_arc(|a| Arc::count(a))),
        ("after callbacks", ArcBorrow::strong_count(b)),
    ];
    let bits: usize = unsafe { std::mem::transmute_copy(b) };
    let datas = vec![("deref", &**b as *const T as usize), ("get", b.get() as *const T as usize), ("bits", bits)];
    Obs {
        kind: "Bor",
        counts,
        seen: b.get().see(),
        heap: b.with_arc(|a| a.heap_ptr() as usize),
        heap_calc: (b.get() as *const T as usize) - data_offset::<T>(),
        datas,
        notes: vec![],
    }
}

fn obs_raw<T: Ty>(p: *const T) -> Obs {
    let b = unsafe { ArcBorrow::from_ptr(p) };
    Obs {
        kind: "Raw",
        counts: vec![("from_ptr.strong_count", ArcBorrow::strong_count(&b))],
        seen: unsafe { T::peek(p) },
        heap: 0,
        heap_calc: p as usize - data_offset::<T>(),
        datas: vec![("raw", p as usize)],
        notes: vec![],
    }
}

fn obs_unq<T: Ty>(u: &UniqueArc<T>) -> Obs {
    Obs {
        kind: "Unq",
        counts: vec![],
        seen: (**u).see(),
        heap: 0,
        heap_calc: (&**u as *const T as usize) - data_offset::<T>(),
        datas: vec![("deref", &**u as *const T as usize)],
        notes: vec![],
    }
}

pub fn observe(h: &H) -> Obs {
    unsafe {
        match h {
            H::ArcA(a) => obs_arc("Arc", a),
            H::ArcB(a) => obs_arc("Arc", a),
            H::TArcA(p) => obs_arc("TArc", &**p),
            H::TArcB(p) => obs_arc("TArc", &**p),
            H::OffA(o) => obs_off("Off", o),
            H::OffB(o) => obs_off("Off", o),
            H::TOffA(p) => obs_off("TOff", &**p),
            H::TOffB(p) => obs_off("TOff", &**p),
            H::BorA(b) => obs_bor(b),
            H::BorB(b) => obs_bor(b),
            H::RawA(p) => obs_raw(*p),
            H::RawB(p) => obs_raw(*p),
            H::UnqA(u) => obs_unq(u),
            H::UnqB(u) => obs_unq(u),
            H::Uni(u) => {
                let mut o = match u.borrow() {
                    ArcUnionBorrow::First(b) => obs_bor(&stat(b)),
                    ArcUnionBorrow::Second(b) => obs_bor(&stat(b)),
                };
                o.kind = "Uni";
                o.counts.push(("ArcUnion::strong_count", ArcUnion::strong_count(u)));
                o.counts.push(("ArcUnionBorrow::strong_count", ArcUnionBorrow::strong_count(&u.borrow())));
                let first = matches!(u.borrow(), ArcUnionBorrow::First(_));
                if u.is_first() != first || u.is_second() == first {
                    o.notes.push("is_first/is_second disagree with borrow()".into());
                }
                if u.as_first().is_some() != first || u.as_second().is_some() == first {
                    o.notes.push("as_first/as_second disagree with borrow()".into());
                }
                // the borrow handed out by as_first / as_second is the one borrow() hands out (same bits: the value's address)
                let via_borrow = match u.borrow() {
                    ArcUnionBorrow::First(b) => b.get() as *const A as usize,
                    ArcUnionBorrow::Second(b) => b.get() as *const B as usize,
                };
                let via_as = u.as_first().map(|b| unsafe { std::mem::transmute_copy::<_, usize>(&b) })
                    .or_else(|| u.as_second().map(|b| unsafe { std::mem::transmute_copy::<_, usize>(&b) }));
                if via_as != Some(via_borrow) {
                    o.notes.push("as_first/as_second hand out a borrow whose bits are not the value's address".into());
                }
                if std::mem::size_of_val(u) != std::mem::size_of::<usize>() {
                    o.notes.push("ArcUnion is not one word".into());
                }
                if !ArcUnion::ptr_eq(u, u) {
                    o.notes.push("ArcUnion::ptr_eq(u,u) false".into());
                }
                o.notes.push(if first { "variant=A".into() } else { "variant=B".into() });
                o
            }
            H::Dyn(a) => {
                let counts = vec![("Arc::count", Arc::count(a)), ("Arc::strong_count", Arc::strong_count(a))];
                let data = Arc::as_ptr(a) as *const u8 as usize;
                let off = Layout::new::<usize>().extend(Layout::for_value::<dyn Probe>(&**a)).unwrap().1;
                Obs {
                    kind: "Dyn",
                    counts,
                    seen: a.psee(),
                    heap: a.heap_ptr() as usize,
                    heap_calc: data - off,
                    datas: vec![("as_ptr", data), ("deref", &**a as *const dyn Probe as *const u8 as usize)],
                    notes: vec![],
                }
            }
            H::UnqDyn(u) => {
                let r: &dyn Probe = &**u;
                let data = r as *const dyn Probe as *const u8 as usize;
                let off = Layout::new::<usize>().extend(Layout::for_value::<dyn Probe>(r)).unwrap().1;
                Obs { kind: "UnqDyn", counts: vec![], seen: r.psee(), heap: 0, heap_calc: data - off, datas: vec![("deref", data)], notes: vec![] }
            }
            H::BorDyn(b) => {
                // ArcBorrow<dyn Trait> offers no accessor: it is a transparent NonNull<dyn Trait>
                let p: *const dyn Probe = std::mem::transmute_copy(b);
                let r: &dyn Probe = &*p;
                let data = p as *const u8 as usize;
                let off = Layout::new::<usize>().extend(Layout::for_value::<dyn Probe>(r)).unwrap().1;
                Obs { kind: "BorDyn", counts: vec![], seen: r.psee(), heap: 0, heap_calc: data - off, datas: vec![("raw", data)], notes: vec![] }
            }
            H::RawDyn(p) => {
                let r: &dyn Probe = &**p;
                let data = *p as *const u8 as usize;
                let off = Layout::new::<usize>().extend(Layout::for_value::<dyn Probe>(r)).unwrap().1;
                Obs {
                    kind: "RawDyn",
                    counts: vec![],
                    seen: r.psee(),
                    heap: 0,
                    heap_calc: data - off,
                    datas: vec![("raw", data)],
                    notes: vec![],
                }
            }
        }
    }
}

#[derive(Debug, Clone)]
pub struct Op {
    pub name: String,
    pub s: usize,
    pub d: usize,
    pub x: String,
    pub v: u32,
    pub w: u32,
}

pub fn parse_op(v: &Value) -> Op {
    Op {
        name: v[0].as_str().unwrap_or("").to_string(),
        s: v[1].as_u64().unwrap_or(0) as usize,
        d: v[2].as_u64().unwrap_or(0) as usize,
        x: v[3].as_str().unwrap_or("").to_string(),
        v: v[4].as_u64().unwrap_or(0) as u32,
        w: v.get(5).and_then(|x| x.as_u64()).unwrap_or(0) as u32,
    }
}

#[derive(Debug, Clone, Default, PartialEq)]
pub struct Res {
    pub verdict: Option<bool>,
    pub panicked: bool,
    pub ncl: u32,
    pub seen: u32,
}

#[derive(Debug, Clone)]
pub struct BlockInfo {
    pub addr: usize,
    pub id: u32,
}

#[derive(PartialEq, Clone, Copy, Debug)]
enum Flow {
    End,
    Exit(bool), // panic?
}

struct FramePanic;

pub struct Ctx {
    pub slots: Vec<Option<H>>,
    pub blocks: Vec<BlockInfo>,
    pub outs: Vec<Out>,
    pub events: Vec<Ev>,
    pub last: Res,
    pub ops: Vec<Op>,
    pub pos: usize,
    pub expect: Option<Value>,
    pub errors: Vec<String>,
    pub checked: bool,
    pub id0: u32,
    pub depth: usize,
    pub panics_caught: Vec<Box<dyn std::any::Any + Send>>,
}

macro_rules! bad {
    ($self:ident, $($arg:tt)*) => {{ $self.errors.push(format!($($arg)*)); }};
}

impl Ctx {
    pub fn new(nslots: usize) -> Ctx {
        Ctx {
            slots: (0..=nslots).map(|_| None).collect(),
            blocks: vec![],
            outs: vec![],
            events: vec![],
            last: Res::default(),
            ops: vec![],
            pos: 0,
            expect: None,
            errors: vec![],
            checked: false,
            id0: NEXT_ID.load(Ordering::SeqCst),
            depth: 0,
            panics_caught: vec![],
        }
    }

    fn collect(&mut self) -> Vec<Ev> {
        let evs = ev::drain();
        self.events.extend(evs.iter().cloned());
        evs
    }

    fn take(&mut self, s: usize) -> Option<H> {
        self.slots.get_mut(s).and_then(|x| x.take())
    }

    fn put(&mut self, d: usize, h: H) {
        if d == 0 || d >= self.slots.len() {
            bad!(self, "[harness] harness: bad destination slot {}", d);
            std::mem::forget(h);
            return;
        }
        if self.slots[d].is_some() {
            bad!(self, "[harness] harness: destination slot {} occupied", d);
        }
        self.slots[d] = Some(h);
    }

    fn block_of(&self, addr: usize) -> usize {
        self.blocks.iter().position(|b| b.addr == addr).map(|i| i + 1).unwrap_or(0)
    }

    fn register_block(&mut self, d: usize) {
        if let Some(h) = &self.slots[d] {
            let o = observe(h);
            self.blocks.push(BlockInfo { addr: o.heap_calc, id: o.seen.id });
        }
    }

    /// run the real API call under allocation tracking, catching panics
    fn call<R>(&mut self, f: impl FnOnce() -> R) -> Option<R> {
        alloc::track(true);
        let r = catch_unwind(AssertUnwindSafe(f));
        alloc::track(false);
        match r {
            Ok(v) => Some(v),
            Err(p) => {
                if let Some(b) = p.downcast_ref::<crate::payload::HarnessBug>() {
                    self.errors.push(format!("[harness] {}", b.0));
                }
                self.last.panicked = true;
                self.panics_caught.push(p);
                None
            }
        }
    }

    /// interpret operations until the history ends or the current frame is exited
    fn run(&mut self) -> Flow {
        while self.pos < self.ops.len() {
            let op = self.ops[self.pos].clone();
            self.pos += 1;
            if op.name == "Exit" {
                if self.depth == 0 {
                    bad!(self, "[harness] harness: Exit outside a frame");
                    continue;
                }
                return Flow::Exit(op.x == "panic");
            }
            self.last = Res::default();
            self.step(&op);
            let evs = self.collect();
            self.last.ncl = evs.iter().filter(|e| matches!(e, Ev::Clone { .. })).count() as u32;
        }
        if !self.checked {
            self.checked = true;
            self.final_check();
            // borrows cannot outlive what they borrow from: release them first
            for s in 0..self.slots.len() {
                if matches!(self.slots[s], Some(H::BorA(_)) | Some(H::BorB(_)) | Some(H::BorDyn(_))) {
                    self.slots[s] = None;
                }
            }
        }
        Flow::End
    }

    /// body of a with_arc-style callback: the transient lives in slot d
    fn frame_body(&mut self, d: usize, t: H) -> usize {
        alloc::track(false);
        self.put(d, t);
        self.depth += 1;
        let saved = std::mem::take(&mut self.last);
        let flow = self.run();
        self.depth -= 1;
        // the transient is a borrowed reference: never dropped by us
        if let Some(h) = self.slots[d].take() {
            std::mem::forget(h);
        }
        self.last = saved;
        alloc::track(true);
        if flow == Flow::Exit(true) {
            std::panic::panic_any(FramePanic);
        }
        4242
    }

    fn enter(&mut self, s: usize, d: usize) {
        let this: *mut Ctx = self;
        enum L {
            OffA(*const OffsetArc<A>),
            OffB(*const OffsetArc<B>),
            BorA(ArcBorrow<'static, A>),
            BorB(ArcBorrow<'static, B>),
            ArcA(*const Arc<A>),
            ArcB(*const Arc<B>),
            No,
        }
        let l = match &self.slots[s] {
            Some(H::OffA(o)) => L::OffA(o),
            Some(H::OffB(o)) => L::OffB(o),
            Some(H::TOffA(o)) => L::OffA(*o),
            Some(H::TOffB(o)) => L::OffB(*o),
            Some(H::BorA(b)) => L::BorA(*b),
            Some(H::BorB(b)) => L::BorB(*b),
            Some(H::ArcA(a)) => L::ArcA(a),
            Some(H::ArcB(a)) => L::ArcB(a),
            Some(H::TArcA(a)) => L::ArcA(*a),
            Some(H::TArcB(a)) => L::ArcB(*a),
            _ => L::No,
        };
        let r = unsafe {
            match l {
                L::OffA(o) => self.call(|| (*o).with_arc(|a| (*this).frame_body(d, H::TArcA(a)))),
                L::OffB(o) => self.call(|| (*o).with_arc(|a| (*this).frame_body(d, H::TArcB(a)))),
                L::BorA(b) => self.call(|| b.with_arc(|a| (*this).frame_body(d, H::TArcA(a)))),
                L::BorB(b) => self.call(|| b.with_arc(|a| (*this).frame_body(d, H::TArcB(a)))),
                L::ArcA(a) => self.call(|| (*a).with_raw_offset_arc(|o| (*this).frame_body(d, H::TOffA(o)))),
                L::ArcB(a) => self.call(|| (*a).with_raw_offset_arc(|o| (*this).frame_body(d, H::TOffB(o)))),
                L::No => {
                    bad!(self, "[harness] harness: Enter on slot {} of wrong kind", s);
                    None
                }
            }
        };
        // `last` describes the Exit: whether the API call propagated a panic
        match r {
            Some(4242) => {}
            Some(x) => bad!(self, "[frame] callback result not forwarded: got {}", x),
            None => {
                let ours = self.panics_caught.last().map(|p| p.is::<FramePanic>()).unwrap_or(false);
                if !ours {
                    bad!(self, "[panicked] with_arc-style call panicked with a foreign payload");
                }
            }
        }
    }

    fn step(&mut self, op: &Op) {
        let (s, d) = (op.s, op.d);
        macro_rules! typed {
            // run `$body` with `$x` bound to the typed handle in slot s, for both payload types
            ($h:expr; $( $va:ident | $vb:ident ($x:ident) => $body:expr ),+ ; _ => $else:expr) => {
                match $h {
                    $( H::$va($x) => $body, H::$vb($x) => $body, )+
                    #[allow(unreachable_patterns)]
                    _ => $else,
                }
            };
        }
        match op.name.as_str() {
            "New" => {
                let v = op.v;
                let h = self.call(|| match op.x.as_str() {
                    "new" => H::ArcA(Arc::new(A::mk(v))),
                    "newB" => H::ArcB(Arc::new(B::mk(v))),
                    "unique" => H::UnqA(UniqueArc::new(A::mk(v))),
                    "uniqueB" => H::UnqB(UniqueArc::new(B::mk(v))),
                    "from" => H::ArcA(Arc::from(A::mk(v))),
                    "default" => {
                        let mut a: Arc<A> = Arc::default();
                        Arc::get_mut(&mut a).unwrap().set_val(v);
                        H::ArcA(a)
                    }
                    "box" => H::ArcA(Arc::from(Box::new(A::mk(v)))),
                    "boxB" => H::ArcB(Arc::from(Box::new(B::mk(v)))),
                    _ => crate::payload::harness_bug("unknown constructor"),
                });
                if let Some(h) = h {
                    self.put(d, h);
                    self.register_block(d);
                }
            }
            "Clone" => {
                let n = match &self.slots[s] {
                    Some(h) => {
                        let hp: *const H = h;
                        self.call(|| unsafe {
                            match &*hp {
                                H::ArcA(a) => H::ArcA(a.clone()),
                                H::ArcB(a) => H::ArcB(a.clone()),
                                H::OffA(a) => H::OffA(a.clone()),
                                H::OffB(a) => H::OffB(a.clone()),
                                H::Uni(a) => H::Uni(a.clone()),
                                H::Dyn(a) => H::Dyn(a.clone()),
                                H::TArcA(p) => H::ArcA((**p).clone()),
                                H::TArcB(p) => H::ArcB((**p).clone()),
                                H::TOffA(p) => H::OffA((**p).clone()),
                                H::TOffB(p) => H::OffB((**p).clone()),
                                _ => crate::payload::harness_bug("Clone on wrong kind"),
                            }
                        })
                    }
                    None => None,
                };
                if let Some(n) = n {
                    self.put(d, n);
                }
            }
            "CloneArc" => {
                let n = match &self.slots[s] {
                    Some(h) => {
                        let hp: *const H = h;
                        self.call(|| unsafe {
                            match &*hp {
                                H::OffA(a) => H::ArcA(a.clone_arc()),
                                H::OffB(a) => H::ArcB(a.clone_arc()),
                                H::TOffA(p) => H::ArcA((**p).clone_arc()),
                                H::TOffB(p) => H::ArcB((**p).clone_arc()),
                                H::BorA(b) => H::ArcA(b.clone_arc()),
                                H::BorB(b) => H::ArcB(b.clone_arc()),
                                _ => crate::payload::harness_bug("CloneArc on wrong kind"),
                            }
                        })
                    }
                    None => None,
                };
                if let Some(n) = n {
                    self.put(d, n);
                }
            }
            "CloneFrom" => {
                // slot s becomes a clone of slot d (its source)
                let src: *const H = match &self.slots[d] {
                    Some(h) => h,
                    None => std::ptr::null(),
                };
                let dst: *mut H = match self.slots[s].as_mut() {
                    Some(h) => h,
                    None => std::ptr::null_mut(),
                };
                if src.is_null() || dst.is_null() {
                    bad!(self, "[harness] CloneFrom on empty slot");
                } else {
                    self.call(|| unsafe {
                        match (&mut *dst, &*src) {
                            (H::ArcA(x), H::ArcA(y)) => x.clone_from(y),
                            (H::ArcB(x), H::ArcB(y)) => x.clone_from(y),
                            (H::OffA(x), H::OffA(y)) => x.clone_from(y),
                            (H::OffB(x), H::OffB(y)) => x.clone_from(y),
                            (H::Uni(x), H::Uni(y)) => x.clone_from(y),
                            (H::Dyn(x), H::Dyn(y)) => x.clone_from(y),
                            _ => crate::payload::harness_bug("CloneFrom on wrong kinds"),
                        }
                    });
                }
            }
            "Drop" => {
                if let Some(h) = self.take(s) {
                    self.call(move || match h {
                        H::RawA(_) | H::RawB(_) | H::RawDyn(_) | H::TArcA(_) | H::TArcB(_) | H::TOffA(_) | H::TOffB(_) => {
                            crate::payload::harness_bug("Drop on wrong kind")
                        }
                        other => drop(other),
                    });
                }
            }
            "Forget" => {
                if let Some(h) = self.take(s) {
                    std::mem::forget(h);
                }
            }
            "IntoRaw" | "IntoPtr" | "FromRaw" | "FromPtr" | "IntoOff" | "FromOff" | "FromFirst" | "FromSecond"
            | "Shareable" | "Unsize" | "IntoRawDyn" | "FromRawDyn" | "CastDyn" | "UnsizeUnq" | "ShareableDyn" | "UnsizeBor" => {
                if let Some(h) = self.take(s) {
                    let name = op.name.clone();
                    let n = self.call(move || unsafe {
                        match (name.as_str(), h) {
                            ("IntoRaw", H::ArcA(a)) => H::RawA(Arc::into_raw(a)),
                            ("IntoRaw", H::ArcB(a)) => H::RawB(Arc::into_raw(a)),
                            ("FromRaw", H::RawA(p)) => H::ArcA(Arc::from_raw(p)),
                            ("FromRaw", H::RawB(p)) => H::ArcB(Arc::from_raw(p)),
                            ("IntoPtr", H::ArcA(a)) => H::RawA(<Arc<A> as arc_swap::RefCnt>::into_ptr(a) as *const A),
                            ("IntoPtr", H::ArcB(a)) => H::RawB(<Arc<B> as arc_swap::RefCnt>::into_ptr(a) as *const B),
                            ("FromPtr", H::RawA(p)) => H::ArcA(<Arc<A> as arc_swap::RefCnt>::from_ptr(p as *const <Arc<A> as arc_swap::RefCnt>::Base)),
                            ("FromPtr", H::RawB(p)) => H::ArcB(<Arc<B> as arc_swap::RefCnt>::from_ptr(p as *const <Arc<B> as arc_swap::RefCnt>::Base)),
                            ("IntoOff", H::ArcA(a)) => H::OffA(Arc::into_raw_offset(a)),
                            ("IntoOff", H::ArcB(a)) => H::OffB(Arc::into_raw_offset(a)),
                            ("FromOff", H::OffA(a)) => H::ArcA(Arc::from_raw_offset(a)),
                            ("FromOff", H::OffB(a)) => H::ArcB(Arc::from_raw_offset(a)),
                            ("FromFirst", H::ArcA(a)) => H::Uni(ArcUnion::from_first(a)),
                            ("FromSecond", H::ArcB(a)) => H::Uni(ArcUnion::from_second(a)),
                            ("Shareable", H::UnqA(a)) => H::ArcA(a.shareable()),
                            ("Shareable", H::UnqB(a)) => H::ArcB(a.shareable()),
                            ("Unsize", H::ArcA(a)) => H::Dyn(a.unsize(Coercion!(to dyn Probe))),
                            ("Unsize", H::ArcB(a)) => H::Dyn(a.unsize(Coercion!(to dyn Probe))),
                            ("IntoRawDyn", H::Dyn(a)) => H::RawDyn(Arc::into_raw(a)),
                            ("FromRawDyn", H::RawDyn(p)) => H::Dyn(Arc::from_raw(p)),
                            ("UnsizeUnq", H::UnqA(u)) => H::UnqDyn(u.unsize(Coercion!(to dyn Probe))),
                            ("UnsizeUnq", H::UnqB(u)) => H::UnqDyn(u.unsize(Coercion!(to dyn Probe))),
                            ("ShareableDyn", H::UnqDyn(u)) => H::Dyn(u.shareable()),
                            ("UnsizeBor", H::BorA(b)) => H::BorDyn(b.unsize(Coercion!(to dyn Probe))),
                            ("UnsizeBor", H::BorB(b)) => H::BorDyn(b.unsize(Coercion!(to dyn Probe))),
                            ("CastDyn", H::RawA(p)) => H::RawDyn(p as *const dyn Probe),
                            ("CastDyn", H::RawB(p)) => H::RawDyn(p as *const dyn Probe),
                            (n, h) => {
                                std::mem::forget(h);
                                crate::payload::harness_bug(&format!("{} on wrong kind", n))
                            }
                        }
                    });
                    if let Some(n) = n {
                        self.put(s, n);
                    }
                }
            }
            "Borrow" => {
                let n = match &self.slots[s] {
                    Some(h) => {
                        let hp: *const H = h;
                        let api = op.x.clone();
                        self.call(|| unsafe {
                            match (api.as_str(), &*hp) {
                                ("borrow_arc", H::ArcA(a)) => H::BorA(stat(a.borrow_arc())),
                                ("borrow_arc", H::ArcB(a)) => H::BorB(stat(a.borrow_arc())),
                                ("borrow_arc", H::TArcA(p)) => H::BorA(stat((**p).borrow_arc())),
                                ("borrow_arc", H::TArcB(p)) => H::BorB(stat((**p).borrow_arc())),
                                ("borrow_arc", H::OffA(a)) => H::BorA(stat(a.borrow_arc())),
                                ("borrow_arc", H::OffB(a)) => H::BorB(stat(a.borrow_arc())),
                                ("borrow_arc", H::TOffA(p)) => H::BorA(stat((**p).borrow_arc())),
                                ("borrow_arc", H::TOffB(p)) => H::BorB(stat((**p).borrow_arc())),
                                ("from_ptr", H::ArcA(a)) => H::BorA(ArcBorrow::from_ptr(Arc::as_ptr(a))),
                                ("from_ptr", H::ArcB(a)) => H::BorB(ArcBorrow::from_ptr(Arc::as_ptr(a))),
                                ("from_ptr", H::RawA(p)) => H::BorA(ArcBorrow::from_ptr(*p)),
                                ("from_ptr", H::RawB(p)) => H::BorB(ArcBorrow::from_ptr(*p)),
                                ("borrow", H::Uni(u)) => match u.borrow() {
                                    ArcUnionBorrow::First(b) => H::BorA(stat(b)),
                                    ArcUnionBorrow::Second(b) => H::BorB(stat(b)),
                                },
                                _ => crate::payload::harness_bug("Borrow on wrong kind"),
                            }
                        })
                    }
                    None => None,
                };
                if let Some(n) = n {
                    self.put(d, n);
                }
            }
            "BorCopy" => {
                let n = match &self.slots[s] {
                    Some(H::BorA(b)) => Some(H::BorA(*b)),
                    Some(H::BorB(b)) => Some(H::BorB(b.clone())),
                    _ => None,
                };
                match n {
                    Some(n) => self.put(d, n),
                    None => bad!(self, "[harness] harness: BorCopy on wrong kind"),
                }
            }
            "Enter" => self.enter(s, d),
            "IsUnique" => {
                let v = match &self.slots[s] {
                    Some(h) => {
                        let hp: *const H = h;
                        self.call(|| unsafe {
                            match &*hp {
                                H::ArcA(a) => a.is_unique(),
                                H::ArcB(a) => a.is_unique(),
                                H::Dyn(a) => a.is_unique(),
                                H::TArcA(p) => (**p).is_unique(),
                                H::TArcB(p) => (**p).is_unique(),
                                _ => crate::payload::harness_bug("IsUnique on wrong kind"),
                            }
                        })
                    }
                    None => None,
                };
                self.last.verdict = v;
            }
            "PtrEq" => {
                let v = match (&self.slots[s], &self.slots[d]) {
                    (Some(a), Some(b)) => {
                        let (ap, bp): (*const H, *const H) = (a, b);
                        self.call(|| unsafe {
                            match (&*ap, &*bp) {
                                (H::ArcA(x), H::ArcA(y)) => Arc::ptr_eq(x, y),
                                (H::ArcB(x), H::ArcB(y)) => Arc::ptr_eq(x, y),
                                (H::Dyn(x), H::Dyn(y)) => Arc::ptr_eq(x, y),
                                (H::Uni(x), H::Uni(y)) => ArcUnion::ptr_eq(x, y),
                                (H::BorA(x), H::BorA(y)) => ArcBorrow::ptr_eq(x, y),
                                (H::BorB(x), H::BorB(y)) => ArcBorrow::ptr_eq(x, y),
                                _ => crate::payload::harness_bug("PtrEq on wrong kinds"),
                            }
                        })
                    }
                    _ => None,
                };
                self.last.verdict = v;
            }
            "TryUnique" => {
                if let Some(h) = self.take(s) {
                    let before = observe(&h).heap_calc;
                    let api = op.x.clone();
                    fn go<T: Ty>(api: &str, a: Arc<T>) -> (H, bool) {
                        let r = if api == "try_from" { UniqueArc::try_from(a) } else { Arc::try_unique(a) };
                        match r {
                            Ok(u) => (T::unq(u), true),
                            Err(a) => (T::arc(a), false),
                        }
                    }
                    let r = self.call(move || match h {
                        H::ArcA(a) => go(&api, a),
                        H::ArcB(a) => go(&api, a),
                        h => {
                            std::mem::forget(h);
                            crate::payload::harness_bug("TryUnique on wrong kind")
                        }
                    });
                    if let Some((n, v)) = r {
                        if observe(&n).heap_calc != before {
                            bad!(self, "[block] try_unique returned a handle to a different allocation");
                        }
                        self.last.verdict = Some(v);
                        self.put(s, n);
                    }
                }
            }
            "GetMut" => {
                let v = op.v;
                let api = op.x.clone();
                let r = match self.slots[s].as_mut() {
                    Some(h) => {
                        let hp: *mut H = h;
                        fn go<T: Ty>(api: &str, a: &mut Arc<T>, v: u32) -> (bool, u32) {
                            if api == "get_unique" {
                                match Arc::get_unique(a) {
                                    Some(u) => {
                                        let seen = (**u).see().val;
                                        (**u).set_val(v);
                                        (true, seen)
                                    }
                                    None => (false, 0),
                                }
                            } else {
                                match Arc::get_mut(a) {
                                    Some(r) => {
                                        let seen = r.see().val;
                                        r.set_val(v);
                                        (true, seen)
                                    }
                                    None => (false, 0),
                                }
                            }
                        }
                        self.call(|| unsafe {
                            match &mut *hp {
                                H::ArcA(a) => go(&api, a, v),
                                H::ArcB(a) => go(&api, a, v),
                                H::Dyn(a) => match Arc::get_mut(a) {
                                    Some(r) => {
                                        let seen = r.psee().val;
                                        r.pset(v);
                                        (true, seen)
                                    }
                                    None => (false, 0),
                                },
                                _ => crate::payload::harness_bug("GetMut on wrong kind"),
                            }
                        })
                    }
                    None => None,
                };
                if let Some((ok, seen)) = r {
                    self.last.verdict = Some(ok);
                    self.last.seen = seen;
                }
            }
            "UqWrite" => {
                let v = op.v;
                let r = match self.slots[s].as_mut() {
                    Some(h) => {
                        let hp: *mut H = h;
                        self.call(|| unsafe {
                            match &mut *hp {
                                H::UnqA(u) => {
                                    let seen = (**u).see().val;
                                    (**u).set_val(v);
                                    seen
                                }
                                H::UnqB(u) => {
                                    let seen = (**u).see().val;
                                    (**u).set_val(v);
                                    seen
                                }
                                H::UnqDyn(u) => {
                                    let seen = (**u).psee().val;
                                    (**u).pset(v);
                                    seen
                                }
                                _ => crate::payload::harness_bug("UqWrite on wrong kind"),
                            }
                        })
                    }
                    None => None,
                };
                if let Some(seen) = r {
                    self.last.seen = seen;
                }
            }
            "MakeMut" => {
                let v = op.v;
                let (api, cp) = op.x.split_once('/').unwrap_or(("make_mut", "ok"));
                let api = api.to_string();
                let before = self.slots[s].as_ref().map(|h| observe(h).heap_calc).unwrap_or(0);
                if cp == "panic" {
                    CLONE_PANIC.store(true, Ordering::SeqCst);
                }
                let r = match self.slots[s].as_mut() {
                    Some(h) => {
                        let hp: *mut H = h;
                        fn go<T: Ty + Clone>(api: &str, a: &mut Arc<T>, v: u32) -> u32 {
                            if api == "make_unique" {
                                let u = Arc::make_unique(a);
                                let seen = (**u).see().val;
                                (**u).set_val(v);
                                seen
                            } else {
                                let r = Arc::make_mut(a);
                                let seen = r.see().val;
                                r.set_val(v);
                                seen
                            }
                        }
                        self.call(|| unsafe {
                            match &mut *hp {
                                H::ArcA(a) => go(&api, a, v),
                                H::ArcB(a) => go(&api, a, v),
                                H::OffA(o) => {
                                    let r = o.make_mut();
                                    let seen = r.see().val;
                                    r.set_val(v);
                                    seen
                                }
                                H::OffB(o) => {
                                    let r = o.make_mut();
                                    let seen = r.see().val;
                                    r.set_val(v);
                                    seen
                                }
                                _ => crate::payload::harness_bug("MakeMut on wrong kind"),
                            }
                        })
                    }
                    None => None,
                };
                CLONE_PANIC.store(false, Ordering::SeqCst);
                if let Some(seen) = r {
                    self.last.seen = seen;
                }
                let after = self.slots[s].as_ref().map(|h| observe(h).heap_calc).unwrap_or(0);
                self.last.verdict = Some(before == after && !self.last.panicked);
                if self.last.panicked {
                    self.last.verdict = Some(false);
                    let ours = self.panics_caught.last().map(|p| p.is::<ClonePanic>()).unwrap_or(false);
                    if !ours {
                        bad!(self, "[panicked] make_mut panicked with a foreign payload");
                    }
                }
                if after != before && after != 0 && self.block_of(after) == 0 {
                    self.register_block(s);
                }
            }
            "TryUnwrap" => {
                if let Some(h) = self.take(s) {
                    fn go<T: Ty>(a: Arc<T>) -> Result<T, H> {
                        Arc::try_unwrap(a).map_err(T::arc)
                    }
                    enum R {
                        A(Result<A, H>),
                        B(Result<B, H>),
                    }
                    let r = self.call(move || match h {
                        H::ArcA(a) => R::A(go(a)),
                        H::ArcB(a) => R::B(go(a)),
                        h => {
                            std::mem::forget(h);
                            crate::payload::harness_bug("TryUnwrap on wrong kind")
                        }
                    });
                    match r {
                        Some(R::A(Ok(v))) => {
                            self.last.verdict = Some(true);
                            self.last.seen = v.see().val;
                            self.outs.push(Out::A(v));
                        }
                        Some(R::B(Ok(v))) => {
                            self.last.verdict = Some(true);
                            self.last.seen = v.see().val;
                            self.outs.push(Out::B(v));
                        }
                        Some(R::A(Err(h))) | Some(R::B(Err(h))) => {
                            self.last.verdict = Some(false);
                            self.put(s, h);
                        }
                        None => {}
                    }
                }
            }
            "IntoInner" => {
                if let Some(h) = self.take(s) {
                    let r = self.call(move || match h {
                        H::UnqA(u) => Out::A(UniqueArc::into_inner(u)),
                        H::UnqB(u) => Out::B(UniqueArc::into_inner(u)),
                        h => {
                            std::mem::forget(h);
                            crate::payload::harness_bug("IntoInner on wrong kind")
                        }
                    });
                    if let Some(o) = r {
                        self.last.verdict = Some(true);
                        self.last.seen = match &o {
                            Out::A(v) => v.see().val,
                            Out::B(v) => v.see().val,
                        };
                        self.outs.push(o);
                    }
                }
            }
            "UnwrapOrClone" => {
                if let Some(h) = self.take(s) {
                    let orig = observe(&h).seen.id;
                    if op.x == "panic" {
                        CLONE_PANIC.store(true, Ordering::SeqCst);
                    }
                    let r = self.call(move || match h {
                        H::ArcA(a) => Out::A(Arc::unwrap_or_clone(a)),
                        H::ArcB(a) => Out::B(Arc::unwrap_or_clone(a)),
                        h => {
                            std::mem::forget(h);
                            crate::payload::harness_bug("UnwrapOrClone on wrong kind")
                        }
                    });
                    CLONE_PANIC.store(false, Ordering::SeqCst);
                    match r {
                        Some(o) => {
                            let seen = match &o {
                                Out::A(v) => v.see(),
                                Out::B(v) => v.see(),
                            };
                            self.last.verdict = Some(seen.id == orig);
                            self.last.seen = seen.val;
                            if !seen.ok {
                                bad!(self, "[poison] unwrap_or_clone returned a value that is not a live object");
                            }
                            self.outs.push(o);
                        }
                        None => {
                            self.last.verdict = Some(false);
                            let ours = self.panics_caught.last().map(|p| p.is::<ClonePanic>()).unwrap_or(false);
                            if !ours {
                                bad!(self, "[panicked] unwrap_or_clone panicked with a foreign payload");
                            }
                        }
                    }
                }
            }
            other => bad!(self, "[harness] harness: unknown op {}", other),
        }
    }

    /// compare the implementation's observable state with the specification's projection
    fn final_check(&mut self) {
        self.collect();
        let x = match self.expect.take() {
            Some(x) => x,
            None => return,
        };
        let (xb, xh, xr) = (&x[0], &x[1], &x[2]);
        // ---- handles
        let nslots = self.slots.len() - 1;
        let mut per_block: Vec<Vec<(usize, Obs)>> = vec![vec![]; self.blocks.len() + 1];
        for s in 1..=nslots {
            let ek = xh[s - 1][0].as_str().unwrap_or("?");
            let eb = xh[s - 1][1].as_u64().unwrap_or(0) as usize;
            match &self.slots[s] {
                None => {
                    if ek != "none" {
                        bad!(self, "[kind] slot {}: expected a {} handle, implementation has none", s, ek);
                    }
                }
                Some(h) => {
                    let o = observe(h);
                    if ek != o.kind {
                        bad!(self, "[kind] slot {}: expected kind {}, got {}", s, ek, o.kind);
                    }
                    let b = self.block_of(o.heap_calc);
                    if b != eb {
                        bad!(self, "[block] slot {} ({}): expected block {}, handle points at block {} (addr {:#x})", s, o.kind, eb, b, o.heap_calc);
                    }
                    if o.heap != 0 && o.heap != o.heap_calc {
                        bad!(self, "[heap] slot {} ({}): heap_ptr {:#x} is not value address - data offset ({:#x})", s, o.kind, o.heap, o.heap_calc);
                    }
                    for (n, d) in &o.datas {
                        if *d != o.datas[0].1 {
                            bad!(self, "[addr] slot {} ({}): value address through {} = {:#x}, through {} = {:#x}", s, o.kind, n, d, o.datas[0].0, o.datas[0].1);
                        }
                    }
                    for n in &o.notes {
                        if !n.starts_with("variant=") {
                            let cat = if n.contains("is_unique") { "verdict" } else { "union" };
                            bad!(self, "[{}] slot {} ({}): {}", cat, s, o.kind, n);
                        }
                    }
                    if !o.seen.ok {
                        bad!(self, "[poison] slot {} ({}): value read through the handle is not a live object (magic {:#x})", s, o.kind, o.seen.magic);
                    }
                    if b != 0 && b < per_block.len() {
                        per_block[b].push((s, o));
                    }
                }
            }
        }
        // ---- blocks
        let mut drops: std::collections::HashMap<u32, u32> = Default::default();
        let mut frees: std::collections::HashMap<usize, u32> = Default::default();
        for e in &self.events {
            match e {
                Ev::Drop { id, .. } => *drops.entry(*id).or_default() += 1,
                Ev::Dealloc { addr, status, size, align, rsize, ralign, .. } => {
                    *frees.entry(*addr).or_default() += 1;
                    if *status == 1 {
                        self.errors.push(format!(
                            "[layout] block {:#x} requested with (size {}, align {}) but released with (size {}, align {})",
                            addr, rsize, ralign, size, align
                        ));
                    } else if *status != 0 {
                        self.errors.push(format!("[frees] block {:#x} released twice or never allocated (status {})", addr, status));
                    }
                }
                Ev::BadDrop { addr, magic } => self
                    .errors
                    .push(format!("[baddrop] destructor ran on something that is not a live object at {:#x} (magic {:#x})", addr, magic)),
                Ev::AllocFail { size, .. } => self.errors.push(format!("[alloc] allocation of {} bytes refused", size)),
                _ => {}
            }
        }
        let nb = xb.as_array().map(|a| a.len()).unwrap_or(0);
        let allocated_expected = (0..nb).filter(|i| xb[*i][0] != "none").count();
        if allocated_expected != self.blocks.len() {
            bad!(self, "[stray] specification has {} allocated blocks, implementation made {}", allocated_expected, self.blocks.len());
        }
        for i in 0..nb.min(self.blocks.len()) {
            let st = xb[i][0].as_str().unwrap_or("?");
            let ty = xb[i][1].as_str().unwrap_or("?");
            let (rc, val, xdrops, xfrees, xout) = (
                xb[i][2].as_u64().unwrap_or(0) as usize,
                xb[i][3].as_u64().unwrap_or(0) as u32,
                xb[i][4].as_u64().unwrap_or(0) as u32,
                xb[i][5].as_u64().unwrap_or(0) as u32,
                xb[i][6].as_u64().unwrap_or(0) as u32,
            );
            let info = self.blocks[i].clone();
            let d = *drops.get(&info.id).unwrap_or(&0);
            let f = *frees.get(&info.addr).unwrap_or(&0);
            if d != xdrops {
                bad!(self, "[drops] block {} ({}): value destroyed {} time(s), specification says {}", i + 1, st, d, xdrops);
            }
            if f != xfrees {
                bad!(self, "[frees] block {} ({}): memory released {} time(s), specification says {}", i + 1, st, f, xfrees);
            }
            if xout == 1 {
                let held = self.outs.iter().any(|o| match o {
                    Out::A(v) => v.see().id == info.id && v.see().ok,
                    Out::B(v) => v.see().id == info.id && v.see().ok,
                });
                if !held {
                    bad!(self, "[out] block {}: value should have been moved out to the caller intact", i + 1);
                }
            }
            if st == "live" {
                for (s, o) in &per_block[i + 1] {
                    for (name, c) in &o.counts {
                        if *c != rc {
                            self.errors.push(format!(
                                "[count] block {}: {} through slot {} ({}) reports {}, specification says {} owner(s)",
                                i + 1, name, s, o.kind, c, rc
                            ));
                        }
                    }
                    if o.seen.val != val {
                        bad!(self, "[value] block {}: value read through slot {} ({}) is {}, specification says {}", i + 1, s, o.kind, o.seen.val, val);
                    }
                    if o.seen.id != info.id {
                        bad!(self, "[ident] block {}: object identity through slot {} changed", i + 1, s);
                    }
                    let is_b = o.notes.iter().any(|n| n == "variant=B");
                    let is_a = o.notes.iter().any(|n| n == "variant=A");
                    if (is_a && ty != "A") || (is_b && ty != "B") {
                        bad!(self, "[union] block {}: ArcUnion in slot {} reports the wrong variant for payload type {}", i + 1, s, ty);
                    }
                }
                if per_block[i + 1].is_empty() && rc > 0 {
                    // only reachable through forgotten handles: nothing to read through
                }
                match alloc::lookup(info.addr) {
                    Some(r) if r.live => {}
                    _ => bad!(self, "[frees] block {}: live in the specification but not a live allocation", i + 1),
                }
            }
        }
        // every tracked allocation is one of the blocks or was returned
        for r in alloc::table() {
            if r.live && self.block_of(r.addr) == 0 {
                // auxiliary allocation (Box source, panic payload) still live
                let pending_panic = !self.panics_caught.is_empty();
                if !pending_panic {
                    bad!(self, "[stray] stray live allocation {:#x} of {} bytes that is no block of the specification", r.addr, r.size);
                }
            }
        }
        // ---- result of the last call
        let xop = xr[0].as_str().unwrap_or("-");
        let xver = xr[2].as_str().unwrap_or("-");
        let xpan = xr[3].as_u64().unwrap_or(0) == 1;
        let xncl = xr[4].as_u64().unwrap_or(0) as u32;
        let xseen = xr[5].as_u64().unwrap_or(0) as u32;
        if xver != "-" {
            let want = xver == "yes";
            match self.last.verdict {
                Some(v) if v == want => {}
                other => bad!(self, "[verdict] {}: uniqueness verdict {:?}, specification says {}", xop, other, xver),
            }
        }
        if self.last.panicked != xpan {
            bad!(self, "[panicked] {}: panicked = {}, specification says {}", xop, self.last.panicked, xpan);
        }
        if self.last.ncl != xncl {
            bad!(self, "[ncl] {}: payload Clone::clone called {} time(s), specification says {}", xop, self.last.ncl, xncl);
        }
        if xseen != 0 && self.last.seen != xseen {
            bad!(self, "[seen] {}: value seen through the granted access is {}, specification says {}", xop, self.last.seen, xseen);
        }
    }

    /// release everything and require that nothing is destroyed twice, leaked or left allocated
    fn drain_and_account(&mut self) {
        for s in 0..self.slots.len() {
            if let Some(h) = self.slots[s].take() {
                let r = self.call(move || unsafe {
                    match h {
                        H::RawA(p) => drop(Arc::from_raw(p)),
                        H::RawB(p) => drop(Arc::from_raw(p)),
                        H::RawDyn(p) => drop(Arc::from_raw(p)),
                        H::TArcA(_) | H::TArcB(_) | H::TOffA(_) | H::TOffB(_) => {}
                        other => drop(other),
                    }
                });
                if r.is_none() {
                    bad!(self, "[drain] drain: releasing slot {} panicked", s);
                }
            }
        }
        self.outs.clear();
        self.panics_caught.clear();
        self.collect();
        let id1 = NEXT_ID.load(Ordering::SeqCst);
        let mut drops: std::collections::HashMap<u32, u32> = Default::default();
        for e in &self.events {
            match e {
                Ev::Drop { id, .. } => *drops.entry(*id).or_default() += 1,
                Ev::BadDrop { addr, magic } => self
                    .errors
                    .push(format!("[baddrop] drain: destructor ran on something that is not a live object at {:#x} (magic {:#x})", addr, magic)),
                _ => {}
            }
        }
        for id in self.id0..id1 {
            let d = *drops.get(&id).unwrap_or(&0);
            if d != 1 {
                bad!(self, "[drain] drain: object {} destroyed {} time(s) by the time every handle is gone", id - self.id0 + 1, d);
            }
        }
        if alloc::overruns() > 0 {
            bad!(self, "[overrun] {} block(s) were written past their end (red zone damaged)", alloc::overruns());
        }
        for r in alloc::table() {
            if r.live || r.frees != 1 {
                bad!(self, "[drain] drain: allocation of {} bytes (align {}) released {} time(s) by the time every handle is gone", r.size, r.align, r.frees);
            }
        }
        for e in &self.events {
            if let Ev::Dealloc { status, addr, size, align, rsize, ralign, .. } = e {
                if *status != 0 {
                    let m = format!(
                        "[layout] drain: block {:#x} requested (size {}, align {}), released (size {}, align {}), status {}",
                        addr, rsize, ralign, size, align, status
                    );
                    if !self.errors.contains(&m) {
                        self.errors.push(m);
                    }
                }
            }
        }
        if ev::LOG.overflow.load(Ordering::SeqCst) {
            bad!(self, "[harness] harness: event log overflow");
        }
    }
}

/// run one exported behaviour; returns the list of discrepancies (empty = conforms)
pub fn replay_line(nslots: usize, h: &Value, x: &Value) -> Vec<String> {
    alloc::reset();
    ev::LOG.clear();
    let mut ctx = Ctx::new(nslots);
    ctx.ops = h.as_array().map(|a| a.iter().map(parse_op).collect()).unwrap_or_default();
    ctx.expect = Some(x.clone());
    let flow = ctx.run();
    if flow != Flow::End {
        ctx.errors.push("[harness] harness: history ended with an unmatched Exit".into());
    }
    ctx.drain_and_account();
    let errs = std::mem::take(&mut ctx.errors);
    drop(ctx);
    alloc::reset();
    errs
}
