//! C17: serialisation of Arc<T>/UniqueArc<T> drives the serializer exactly as T does (errors included);
//! deserialisation yields a fresh sole owner of what T's own deserialiser yields, or passes the error
//! through and leaves no allocation behind. Observations are written as an NDJSON trace that TLC
//! validates against `Serde.tla`.
#![cfg(feature = "cfg_a")]

use crate::alloc;
use crate::ev;
use serde::de::{self, DeserializeSeed, Deserializer, SeqAccess, Visitor};
use serde::ser::{self, Serialize, Serializer};
use serde::Deserialize;
use serde_json::{json, Value};
use std::cell::{Cell, RefCell};
use std::fmt;
use triomphe::{Arc, UniqueArc};

// ------------------------------------------------------------------ recording serializer
#[derive(Debug, Clone, PartialEq)]
pub enum SErr {
    Injected(usize),
    Custom(String),
}
impl fmt::Display for SErr {
    fn fmt(&self, f: &mut fmt::Formatter) -> fmt::Result {
        write!(f, "{:?}", self)
    }
}
impl std::error::Error for SErr {}
impl ser::Error for SErr {
    fn custom<T: fmt::Display>(m: T) -> Self {
        SErr::Custom(m.to_string())
    }
}

/// hashes what is written into it: a call's description is recorded without allocating, so that the
/// serializer itself adds nothing to the allocator's picture of the call
struct HashW(std::collections::hash_map::DefaultHasher);
impl fmt::Write for HashW {
    fn write_str(&mut self, s: &str) -> fmt::Result {
        use std::hash::Hasher;
        self.0.write(s.as_bytes());
        Ok(())
    }
}

/// when set, the injected failure of a `Rec` is a panic instead of an error
static SER_PANICS: std::sync::atomic::AtomicBool = std::sync::atomic::AtomicBool::new(false);
struct SerPanic(usize);
#[derive(Clone, Copy)]
pub struct Rec<'a> {
    /// one entry per serializer call: hash of (method, arguments); capacity reserved up front
    log: &'a RefCell<Vec<u64>>,
    fail_at: usize,
    /// what `is_human_readable` answers (serde's default is true; compact formats answer false)
    hr: bool,
}
impl<'a> Rec<'a> {
    fn hit(&self, what: fmt::Arguments) -> Result<(), SErr> {
        use std::fmt::Write;
        use std::hash::Hasher;
        let mut h = HashW(std::collections::hash_map::DefaultHasher::new());
        let _ = h.write_fmt(what);
        let mut l = self.log.borrow_mut();
        if l.len() < l.capacity() {
            l.push(h.0.finish());
        }
        if l.len() == self.fail_at {
            if SER_PANICS.load(std::sync::atomic::Ordering::SeqCst) {
                let k = l.len();
                drop(l);
                std::panic::panic_any(SerPanic(k));
            }
            Err(SErr::Injected(l.len()))
        } else {
            Ok(())
        }
    }
}
macro_rules! prim {
    ($($m:ident: $t:ty),*) => { $( fn $m(self, v: $t) -> Result<(), SErr> { self.hit(format_args!("{} {:?}", stringify!($m), v)) } )* };
}
impl<'a> Serializer for Rec<'a> {
    type Ok = ();
    type Error = SErr;
    type SerializeSeq = Self;
    type SerializeTuple = Self;
    type SerializeTupleStruct = Self;
    type SerializeTupleVariant = Self;
    type SerializeMap = Self;
    type SerializeStruct = Self;
    type SerializeStructVariant = Self;
    fn is_human_readable(&self) -> bool {
        self.hr
    }
    prim!(serialize_bool: bool, serialize_i8: i8, serialize_i16: i16, serialize_i32: i32, serialize_i64: i64, serialize_u8: u8,
          serialize_u16: u16, serialize_u32: u32, serialize_u64: u64, serialize_f32: f32, serialize_f64: f64, serialize_char: char,
          serialize_str: &str, serialize_bytes: &[u8]);
    fn serialize_none(self) -> Result<(), SErr> { self.hit(format_args!("none")) }
    fn serialize_some<T: ?Sized + Serialize>(self, v: &T) -> Result<(), SErr> { self.hit(format_args!("some"))?; v.serialize(self) }
    fn serialize_unit(self) -> Result<(), SErr> { self.hit(format_args!("unit")) }
    fn serialize_unit_struct(self, n: &'static str) -> Result<(), SErr> { self.hit(format_args!("unit_struct {}", n)) }
    fn serialize_unit_variant(self, n: &'static str, i: u32, v: &'static str) -> Result<(), SErr> { self.hit(format_args!("unit_variant {} {} {}", n, i, v)) }
    fn serialize_newtype_struct<T: ?Sized + Serialize>(self, n: &'static str, v: &T) -> Result<(), SErr> { self.hit(format_args!("newtype_struct {}", n))?; v.serialize(self) }
    fn serialize_newtype_variant<T: ?Sized + Serialize>(self, n: &'static str, i: u32, va: &'static str, v: &T) -> Result<(), SErr> { self.hit(format_args!("newtype_variant {} {} {}", n, i, va))?; v.serialize(self) }
    fn serialize_seq(self, len: Option<usize>) -> Result<Self, SErr> { self.hit(format_args!("seq {:?}", len))?; Ok(self) }
    fn serialize_tuple(self, len: usize) -> Result<Self, SErr> { self.hit(format_args!("tuple {}", len))?; Ok(self) }
    fn serialize_tuple_struct(self, n: &'static str, len: usize) -> Result<Self, SErr> { self.hit(format_args!("tuple_struct {} {}", n, len))?; Ok(self) }
    fn serialize_tuple_variant(self, n: &'static str, i: u32, v: &'static str, len: usize) -> Result<Self, SErr> { self.hit(format_args!("tuple_variant {} {} {} {}", n, i, v, len))?; Ok(self) }
    fn serialize_map(self, len: Option<usize>) -> Result<Self, SErr> { self.hit(format_args!("map {:?}", len))?; Ok(self) }
    fn serialize_struct(self, n: &'static str, len: usize) -> Result<Self, SErr> { self.hit(format_args!("struct {} {}", n, len))?; Ok(self) }
    fn serialize_struct_variant(self, n: &'static str, i: u32, v: &'static str, len: usize) -> Result<Self, SErr> { self.hit(format_args!("struct_variant {} {} {} {}", n, i, v, len))?; Ok(self) }
}
macro_rules! compound {
    ($tr:ident, $m:ident) => {
        impl<'a> ser::$tr for Rec<'a> {
            type Ok = ();
            type Error = SErr;
            fn $m<T: ?Sized + Serialize>(&mut self, v: &T) -> Result<(), SErr> { self.hit(format_args!("element"))?; v.serialize(*self) }
            fn end(self) -> Result<(), SErr> { self.hit(format_args!("end")) }
        }
    };
}
compound!(SerializeSeq, serialize_element);
compound!(SerializeTuple, serialize_element);
compound!(SerializeTupleStruct, serialize_field);
compound!(SerializeTupleVariant, serialize_field);
impl<'a> ser::SerializeMap for Rec<'a> {
    type Ok = ();
    type Error = SErr;
    fn serialize_key<T: ?Sized + Serialize>(&mut self, v: &T) -> Result<(), SErr> { self.hit(format_args!("key"))?; v.serialize(*self) }
    fn serialize_value<T: ?Sized + Serialize>(&mut self, v: &T) -> Result<(), SErr> { self.hit(format_args!("value"))?; v.serialize(*self) }
    fn end(self) -> Result<(), SErr> { self.hit(format_args!("end")) }
}
macro_rules! compound_named {
    ($tr:ident) => {
        impl<'a> ser::$tr for Rec<'a> {
            type Ok = ();
            type Error = SErr;
            fn serialize_field<T: ?Sized + Serialize>(&mut self, k: &'static str, v: &T) -> Result<(), SErr> { self.hit(format_args!("field {}", k))?; v.serialize(*self) }
            fn end(self) -> Result<(), SErr> { self.hit(format_args!("end")) }
        }
    };
}
compound_named!(SerializeStruct);
compound_named!(SerializeStructVariant);

// ------------------------------------------------------------------ token deserializer with fault injection
#[derive(Debug, Clone, PartialEq)]
pub enum Tok {
    U64(u64),
    I64(i64),
    Str(String),
    Seq(usize),
}
#[derive(Debug, Clone, PartialEq)]
pub enum DErr {
    Injected(usize),
    Custom(String),
    Eof,
}
impl fmt::Display for DErr {
    fn fmt(&self, f: &mut fmt::Formatter) -> fmt::Result {
        write!(f, "{:?}", self)
    }
}
impl std::error::Error for DErr {}
impl de::Error for DErr {
    fn custom<T: fmt::Display>(m: T) -> Self {
        DErr::Custom(m.to_string())
    }
}
/// when set, the injected failure of a `De` is a panic instead of an error
static DE_PANICS: std::sync::atomic::AtomicBool = std::sync::atomic::AtomicBool::new(false);
struct DePanic(usize);
pub struct De<'a> {
    toks: &'a [Tok],
    pos: &'a Cell<usize>,
    calls: &'a Cell<usize>,
    fail_at: usize,
    hr: bool,
}
impl<'de, 'a, 'b> Deserializer<'de> for &'b mut De<'a> {
    type Error = DErr;
    fn is_human_readable(&self) -> bool {
        self.hr
    }
    fn deserialize_any<V: Visitor<'de>>(self, v: V) -> Result<V::Value, DErr> {
        self.calls.set(self.calls.get() + 1);
        if self.calls.get() == self.fail_at {
            if DE_PANICS.load(std::sync::atomic::Ordering::SeqCst) {
                std::panic::panic_any(DePanic(self.fail_at));
            }
            return Err(DErr::Injected(self.fail_at));
        }
        let p = self.pos.get();
        let t = self.toks.get(p).ok_or(DErr::Eof)?.clone();
        self.pos.set(p + 1);
        match t {
            Tok::U64(x) => v.visit_u64(x),
            Tok::I64(x) => v.visit_i64(x),
            Tok::Str(s) => v.visit_string(s),
            Tok::Seq(n) => v.visit_seq(Acc { de: self, left: n }),
        }
    }
    serde::forward_to_deserialize_any! {
        bool i8 i16 i32 i64 i128 u8 u16 u32 u64 u128 f32 f64 char str string bytes byte_buf option unit unit_struct
        newtype_struct seq tuple tuple_struct map struct enum identifier ignored_any
    }
}
struct Acc<'b, 'a> {
    de: &'b mut De<'a>,
    left: usize,
}
impl<'de, 'b, 'a> SeqAccess<'de> for Acc<'b, 'a> {
    type Error = DErr;
    fn next_element_seed<S: DeserializeSeed<'de>>(&mut self, seed: S) -> Result<Option<S::Value>, DErr> {
        if self.left == 0 {
            return Ok(None);
        }
        self.left -= 1;
        seed.deserialize(&mut *self.de).map(Some)
    }
}

// ------------------------------------------------------------------ payloads with hand-written impls
#[derive(Debug, Clone, PartialEq)]
pub struct Inner {
    x: i32,
    s: String,
}
#[derive(Debug, Clone, PartialEq)]
pub struct Outer {
    a: u8,
    inner: Inner,
    v: Vec<Inner>,
}
impl Serialize for Inner {
    fn serialize<S: Serializer>(&self, s: S) -> Result<S::Ok, S::Error> {
        use ser::SerializeStruct;
        let mut st = s.serialize_struct("Inner", 2)?;
        st.serialize_field("x", &self.x)?;
        st.serialize_field("s", &self.s)?;
        st.end()
    }
}
impl Serialize for Outer {
    fn serialize<S: Serializer>(&self, s: S) -> Result<S::Ok, S::Error> {
        use ser::SerializeStruct;
        let mut st = s.serialize_struct("Outer", 3)?;
        st.serialize_field("a", &self.a)?;
        st.serialize_field("inner", &self.inner)?;
        st.serialize_field("v", &self.v)?;
        st.end()
    }
}
impl<'de> Deserialize<'de> for Inner {
    fn deserialize<D: Deserializer<'de>>(d: D) -> Result<Inner, D::Error> {
        struct V;
        impl<'de> Visitor<'de> for V {
            type Value = Inner;
            fn expecting(&self, f: &mut fmt::Formatter) -> fmt::Result {
                f.write_str("Inner")
            }
            fn visit_seq<A: SeqAccess<'de>>(self, mut a: A) -> Result<Inner, A::Error> {
                let x = a.next_element()?.ok_or_else(|| de::Error::custom("missing x"))?;
                let s = a.next_element()?.ok_or_else(|| de::Error::custom("missing s"))?;
                Ok(Inner { x, s })
            }
        }
        d.deserialize_struct("Inner", &["x", "s"], V)
    }
}
impl<'de> Deserialize<'de> for Outer {
    fn deserialize<D: Deserializer<'de>>(d: D) -> Result<Outer, D::Error> {
        struct V;
        impl<'de> Visitor<'de> for V {
            type Value = Outer;
            fn expecting(&self, f: &mut fmt::Formatter) -> fmt::Result {
                f.write_str("Outer")
            }
            fn visit_seq<A: SeqAccess<'de>>(self, mut a: A) -> Result<Outer, A::Error> {
                let aa = a.next_element()?.ok_or_else(|| de::Error::custom("missing a"))?;
                let inner = a.next_element()?.ok_or_else(|| de::Error::custom("missing inner"))?;
                let v = a.next_element()?.ok_or_else(|| de::Error::custom("missing v"))?;
                Ok(Outer { a: aa, inner, v })
            }
        }
        d.deserialize_struct("Outer", &["a", "inner", "v"], V)
    }
}

/// zero-sized payloads: a unit struct with a hand-written impl, PhantomData, an empty array
#[derive(Debug, Clone, PartialEq)]
pub struct UnitS;
impl Serialize for UnitS {
    fn serialize<S: Serializer>(&self, s: S) -> Result<S::Ok, S::Error> {
        s.serialize_unit_struct("UnitS")
    }
}

// ------------------------------------------------------------------ the runs
/// a payload of more than 4 KB without heap memory of its own (hand-written impls, a sequence of 600 words)
#[derive(Clone, PartialEq)]
pub struct Table(pub [u64; 600]);
impl fmt::Debug for Table {
    fn fmt(&self, f: &mut fmt::Formatter) -> fmt::Result {
        write!(f, "Table[{}, {}, ..]", self.0[0], self.0[1])
    }
}
impl Serialize for Table {
    fn serialize<S: Serializer>(&self, s: S) -> Result<S::Ok, S::Error> {
        use serde::ser::SerializeSeq;
        let mut q = s.serialize_seq(Some(4))?;
        for i in 0..4 {
            q.serialize_element(&self.0[i])?;
        }
        q.end()
    }
}
impl<'de> Deserialize<'de> for Table {
    fn deserialize<D: Deserializer<'de>>(d: D) -> Result<Table, D::Error> {
        struct V;
        impl<'de> Visitor<'de> for V {
            type Value = Table;
            fn expecting(&self, f: &mut fmt::Formatter) -> fmt::Result {
                f.write_str("Table")
            }
            fn visit_seq<A: SeqAccess<'de>>(self, mut a: A) -> Result<Table, A::Error> {
                let mut t = Table([0; 600]);
                for i in 0..4 {
                    t.0[i] = a.next_element()?.ok_or_else(|| de::Error::invalid_length(i, &self))?;
                }
                Ok(t)
            }
        }
        d.deserialize_any(V)
    }
}

/// a payload whose own Serialize goes through a handle to the very allocation it lives in, once (a bounded
/// self-reference, e.g. a node that prints its parent link): the handle must forward that call like any other
#[derive(Clone, PartialEq, Debug)]
pub struct SelfRef(pub u32);
thread_local! {
    static SELF_HANDLE: RefCell<Option<Arc<SelfRef>>> = const { RefCell::new(None) };
    static SELF_DEPTH: Cell<u32> = const { Cell::new(0) };
}
impl Serialize for SelfRef {
    fn serialize<S: Serializer>(&self, s: S) -> Result<S::Ok, S::Error> {
        use serde::ser::SerializeTuple;
        let d = SELF_DEPTH.with(|c| c.get());
        let me = if d == 0 { SELF_HANDLE.with(|h| h.borrow().clone()) } else { None };
        let mut t = s.serialize_tuple(2)?;
        t.serialize_element(&self.0)?;
        SELF_DEPTH.with(|c| c.set(d + 1));
        let r = match &me {
            Some(h) => t.serialize_element(h),
            None => t.serialize_element(&0u8),
        };
        SELF_DEPTH.with(|c| c.set(d));
        r?;
        t.end()
    }
}

/// identity-tracked payload for the in-place deserialisation of a UniqueArc
pub struct Tracked {
    id: u32,
    v: u64,
}
thread_local! {
    static T_DROPS: RefCell<Vec<u32>> = const { RefCell::new(Vec::new()) };
    static T_NEXT: Cell<u32> = const { Cell::new(1) };
}
impl Tracked {
    fn mk(v: u64) -> Tracked {
        let id = T_NEXT.with(|n| {
            n.set(n.get() + 1);
            n.get()
        });
        Tracked { id, v }
    }
}
impl Drop for Tracked {
    fn drop(&mut self) {
        let id = self.id;
        T_DROPS.with(|d| d.borrow_mut().push(id));
    }
}
impl<'de> Deserialize<'de> for Tracked {
    fn deserialize<D: Deserializer<'de>>(d: D) -> Result<Tracked, D::Error> {
        struct V;
        impl<'de> Visitor<'de> for V {
            type Value = Tracked;
            fn expecting(&self, f: &mut fmt::Formatter) -> fmt::Result {
                f.write_str("Tracked")
            }
            fn visit_seq<A: SeqAccess<'de>>(self, mut a: A) -> Result<Tracked, A::Error> {
                let x: u64 = a.next_element()?.ok_or_else(|| de::Error::invalid_length(0, &self))?;
                let y: u64 = a.next_element()?.ok_or_else(|| de::Error::invalid_length(1, &self))?;
                Ok(Tracked::mk(x + y))
            }
        }
        d.deserialize_any(V)
    }
}

/// `deserialize_in_place` into a UniqueArc: afterwards the handle holds the new value (the old one destroyed once), or,
/// on an error, the old value untouched; nothing is destroyed twice
fn unique_in_place_case(out: &mut Vec<Value>) {
    use Tok::*;
    let toks = vec![Seq(2), U64(40), U64(2)];
    let mut inputs: Vec<(usize, usize)> = (0..=4).map(|k| (k, toks.len())).collect();
    for cut in 0..toks.len() {
        inputs.push((0, cut));
    }
    for (k, cut) in inputs {
        let t = &toks[..cut];
        T_DROPS.with(|d| d.borrow_mut().clear());
        let (p, c) = (Cell::new(0), Cell::new(0));
        let rv = Tracked::deserialize(&mut De { toks: t, pos: &p, calls: &c, fail_at: k, hr: true });
        let want_ok = rv.is_ok();
        drop(rv);
        T_DROPS.with(|d| d.borrow_mut().clear());
        let mut u = UniqueArc::new(Tracked::mk(5));
        let old_id = u.id;
        let (p, c) = (Cell::new(0), Cell::new(0));
        let r = <UniqueArc<Tracked> as Deserialize>::deserialize_in_place(&mut De { toks: t, pos: &p, calls: &c, fail_at: k, hr: true }, &mut u);
        let ok = r.is_ok();
        let old_drops_while_alive = T_DROPS.with(|d| d.borrow().iter().filter(|i| **i == old_id).count());
        let value_ok = if ok { u.v == 42 && old_drops_while_alive == 1 } else { u.v == 5 && u.id == old_id && old_drops_while_alive == 0 };
        drop(r);
        drop(u);
        let twice = T_DROPS.with(|d| {
            let v = d.borrow();
            v.iter().any(|i| v.iter().filter(|j| *j == i).count() > 1)
        });
        out.push(json!({"op": "de_in_place", "payload": "Tracked", "kind": "unique", "k": k, "cut": cut, "ncalls": 3, "others": 0,
                        "agree": (ok == want_ok) as u8, "ok": ok as u8, "value_ok": (value_ok && !twice) as u8, "others_intact": 1,
                        "count": 1, "others_count": 0, "moved": ok as u8, "live_delta": 0, "left": 0}));
    }
}

/// a payload type that implements Deserialize<'static> only (it borrows from a static input): a handle of it is
/// deserialisable exactly when the payload is
pub struct OnlyStatic(pub &'static str);
impl Deserialize<'static> for OnlyStatic {
    fn deserialize<D: Deserializer<'static>>(_d: D) -> Result<OnlyStatic, D::Error> {
        Ok(OnlyStatic("static"))
    }
}
fn bound_probe(out: &mut Vec<Value>) {
    struct P<T>(std::marker::PhantomData<T>);
    trait No {
        fn yes(&self) -> bool {
            false
        }
    }
    impl<T> No for P<T> {}
    #[allow(dead_code)]
    impl<T: Deserialize<'static>> P<T> {
        fn yes(&self) -> bool {
            true
        }
    }
    let payload = P::<OnlyStatic>(std::marker::PhantomData).yes();
    let arc = P::<Arc<OnlyStatic>>(std::marker::PhantomData).yes();
    let uniq = P::<UniqueArc<OnlyStatic>>(std::marker::PhantomData).yes();
    out.push(json!({"op": "bound", "payload": "a type that is only Deserialize<'static>", "kind": "arc", "k": 0,
                    "payload_is": payload as u8, "handle_is": arc as u8}));
    out.push(json!({"op": "bound", "payload": "a type that is only Deserialize<'static>", "kind": "unique", "k": 0,
                    "payload_is": payload as u8, "handle_is": uniq as u8}));
}

fn live_blocks() -> usize {
    alloc::table().iter().filter(|r| r.live).count()
}

fn ser_case<T: Serialize + Clone + PartialEq + fmt::Debug>(name: &str, v: &T, out: &mut Vec<Value>) {
    // number of calls of the fault-free run
    let base = RefCell::new(Vec::with_capacity(4096));
    let _ = v.serialize(Rec { log: &base, fail_at: 0, hr: true });
    let ncalls = base.borrow().len();
    for (kind, hr) in [("arc", true), ("arc_shared", true), ("unique", true), ("arc", false), ("arc_shared", false), ("unique", false)] {
        for k in 0..=(ncalls + 1) {
            let lv = RefCell::new(Vec::with_capacity(4096));
            let rv = v.serialize(Rec { log: &lv, fail_at: k, hr });
            alloc::reset();
            ev::LOG.clear();
            alloc::track(true);
            let (calls_h, rh, c0, c1, live0, live1);
            {
                alloc::track(false);
                let lh = RefCell::new(Vec::with_capacity(4096));
                alloc::track(true);
                match kind {
                    "unique" => {
                        let u = UniqueArc::new(v.clone());
                        live0 = live_blocks();
                        c0 = 1;
                        rh = u.serialize(Rec { log: &lh, fail_at: k, hr });
                        live1 = live_blocks();
                        c1 = Arc::count(&u.shareable());
                    }
                    _ => {
                        let a = Arc::new(v.clone());
                        let other = if kind == "arc_shared" { Some(a.clone()) } else { None };
                        live0 = live_blocks();
                        c0 = Arc::count(&a);
                        rh = a.serialize(Rec { log: &lh, fail_at: k, hr });
                        live1 = live_blocks();
                        c1 = Arc::count(&a);
                        drop(other);
                    }
                }
                alloc::track(false);
                calls_h = lh.borrow().clone();
            }
            let leaked = live_blocks();
            let same_calls = calls_h == *lv.borrow();
            out.push(json!({"op": "ser", "payload": name, "kind": kind, "k": k, "ncalls": ncalls, "human_readable": hr as u8,
                            "same_calls": same_calls as u8, "same_result": (rh == rv) as u8,
                            "count_before": c0, "count_after": c1, "live_delta": live1 as i64 - live0 as i64, "leaked": leaked,
                            "detail": if same_calls && rh == rv { json!("-") } else { json!(format!("handle calls {:x?} result {:?}; value calls {:x?} result {:?}", calls_h, rh, *lv.borrow(), rv)) }}));
            drop(rh); // may own memory allocated under tracking: must go before reset() really frees it
            alloc::reset();
        }
    }
}

/// the serializer panics at its k-th call: the unwind comes out at the same call as for the value, the handle is an
/// observer all the same (count untouched, nothing allocated and left)
fn ser_panic_case<T: Serialize + Clone + PartialEq + fmt::Debug>(name: &str, v: &T, out: &mut Vec<Value>) {
    use std::panic::{catch_unwind, AssertUnwindSafe};
    use std::sync::atomic::Ordering::SeqCst;
    let base = RefCell::new(Vec::with_capacity(4096));
    let _ = v.serialize(Rec { log: &base, fail_at: 0, hr: true });
    let ncalls = base.borrow().len();
    let prev = std::panic::take_hook();
    std::panic::set_hook(Box::new(|_| {}));
    let pk = |r: std::thread::Result<bool>| match r {
        Err(e) => e.downcast_ref::<SerPanic>().map(|d| d.0 as i64).unwrap_or(-1),
        Ok(_) => -2,
    };
    for kind in ["arc", "arc_shared", "unique"] {
        for k in 1..=ncalls {
            let lv = RefCell::new(Vec::with_capacity(4096));
            SER_PANICS.store(true, SeqCst);
            let rv = pk(catch_unwind(AssertUnwindSafe(|| v.serialize(Rec { log: &lv, fail_at: k, hr: true }).is_ok())));
            SER_PANICS.store(false, SeqCst);
            alloc::reset();
            ev::LOG.clear();
            let lh = RefCell::new(Vec::with_capacity(4096));
            alloc::track(true);
            let (rh, c0, c1, live0, live1);
            match kind {
                "unique" => {
                    let u = UniqueArc::new(v.clone());
                    live0 = live_blocks();
                    c0 = 1;
                    SER_PANICS.store(true, SeqCst);
                    rh = pk(catch_unwind(AssertUnwindSafe(|| u.serialize(Rec { log: &lh, fail_at: k, hr: true }).is_ok())));
                    SER_PANICS.store(false, SeqCst);
                    live1 = live_blocks();
                    c1 = Arc::count(&u.shareable());
                }
                _ => {
                    let a = Arc::new(v.clone());
                    let other = if kind == "arc_shared" { Some(a.clone()) } else { None };
                    live0 = live_blocks();
                    c0 = Arc::count(&a);
                    SER_PANICS.store(true, SeqCst);
                    rh = pk(catch_unwind(AssertUnwindSafe(|| a.serialize(Rec { log: &lh, fail_at: k, hr: true }).is_ok())));
                    SER_PANICS.store(false, SeqCst);
                    live1 = live_blocks();
                    c1 = Arc::count(&a);
                    drop(other);
                }
            }
            alloc::track(false);
            let leaked = live_blocks();
            let same_calls = *lh.borrow() == *lv.borrow();
            out.push(json!({"op": "ser", "payload": format!("{} (the serializer panics)", name), "kind": kind, "k": k, "ncalls": ncalls, "human_readable": 1,
                            "same_calls": same_calls as u8, "same_result": (rh == rv && rv == k as i64) as u8,
                            "count_before": c0, "count_after": c1, "live_delta": live1 as i64 - live0 as i64, "leaked": leaked,
                            "detail": format!("handle unwinds at {}, value at {}", rh, rv)}));
            alloc::reset();
        }
    }
    std::panic::set_hook(prev);
}

fn de_case<T: for<'de> Deserialize<'de> + PartialEq + fmt::Debug>(name: &str, toks: &[Tok], out: &mut Vec<Value>) {
    let (p0, c0) = (Cell::new(0), Cell::new(0));
    let _ = T::deserialize(&mut De { toks, pos: &p0, calls: &c0, fail_at: 0, hr: true });
    let ncalls = c0.get();
    // also truncated inputs (short token streams)
    let mut inputs: Vec<(usize, usize)> = (0..=(ncalls + 1)).map(|k| (k, toks.len())).collect();
    for cut in 0..toks.len() {
        inputs.push((0, cut));
    }
    for (kind, hr) in [("arc", true), ("unique", true), ("arc", false), ("unique", false)] {
        for (k, cut) in inputs.iter().cloned() {
            let t = &toks[..cut];
            let (p, c) = (Cell::new(0), Cell::new(0));
            let rv = T::deserialize(&mut De { toks: t, pos: &p, calls: &c, fail_at: k, hr });
            let calls_v = c.get();
            drop(rv.as_ref().ok());
            alloc::reset();
            ev::LOG.clear();
            let (p, c) = (Cell::new(0), Cell::new(0));
            alloc::track(true);
            let (agree, ok, value_equal, count, fresh, live_after, calls_h);
            match kind {
                "arc" => {
                    let before = live_blocks();
                    let ra = Arc::<T>::deserialize(&mut De { toks: t, pos: &p, calls: &c, fail_at: k, hr });
                    alloc::track(false);
                    calls_h = c.get();
                    match (&ra, &rv) {
                        (Ok(a), Ok(v)) => {
                            agree = true;
                            ok = true;
                            value_equal = **a == *v;
                            count = Arc::count(a);
                            fresh = alloc::lookup(a.heap_ptr() as usize).map(|r| r.live).unwrap_or(false) && a.is_unique();
                        }
                        (Err(ea), Err(ev_)) => {
                            agree = ea == ev_;
                            ok = false;
                            value_equal = true;
                            count = 0;
                            fresh = true;
                        }
                        _ => {
                            agree = false;
                            ok = ra.is_ok();
                            value_equal = false;
                            count = 0;
                            fresh = false;
                        }
                    }
                    alloc::track(true);
                    drop(ra);
                    alloc::track(false);
                    live_after = live_blocks() as i64 - before as i64;
                }
                _ => {
                    let before = live_blocks();
                    let ra = UniqueArc::<T>::deserialize(&mut De { toks: t, pos: &p, calls: &c, fail_at: k, hr });
                    alloc::track(false);
                    calls_h = c.get();
                    match (&ra, &rv) {
                        (Ok(a), Ok(v)) => {
                            agree = true;
                            ok = true;
                            value_equal = **a == *v;
                            count = 1;
                            fresh = true;
                        }
                        (Err(ea), Err(ev_)) => {
                            agree = ea == ev_;
                            ok = false;
                            value_equal = true;
                            count = 0;
                            fresh = true;
                        }
                        _ => {
                            agree = false;
                            ok = ra.is_ok();
                            value_equal = false;
                            count = 0;
                            fresh = false;
                        }
                    }
                    alloc::track(true);
                    drop(ra);
                    alloc::track(false);
                    live_after = live_blocks() as i64 - before as i64;
                }
            }
            out.push(json!({"op": "de", "payload": name, "kind": kind, "k": k, "cut": cut, "ncalls": ncalls, "human_readable": hr as u8,
                            "agree": agree as u8, "ok": ok as u8, "value_equal": value_equal as u8, "count": count, "fresh": fresh as u8,
                            "live_after": live_after, "same_calls": (calls_h == calls_v) as u8}));
            alloc::reset();
        }
    }
}

/// the deserializer (or the payload's own impl) panics at its k-th call: like an error, the unwind comes out as T's
/// own deserialiser lets it out, and no allocation is left behind
fn de_panic_case<T: for<'de> Deserialize<'de> + PartialEq + fmt::Debug>(name: &str, toks: &[Tok], out: &mut Vec<Value>) {
    use std::panic::{catch_unwind, AssertUnwindSafe};
    use std::sync::atomic::Ordering::SeqCst;
    let (p0, c0) = (Cell::new(0), Cell::new(0));
    let _ = T::deserialize(&mut De { toks, pos: &p0, calls: &c0, fail_at: 0, hr: true });
    let ncalls = c0.get();
    let prev = std::panic::take_hook();
    std::panic::set_hook(Box::new(|_| {}));
    for kind in ["arc", "unique"] {
        for k in 1..=ncalls {
            DE_PANICS.store(true, SeqCst);
            let (p, c) = (Cell::new(0), Cell::new(0));
            let rv = catch_unwind(AssertUnwindSafe(|| T::deserialize(&mut De { toks, pos: &p, calls: &c, fail_at: k, hr: true }).is_ok()));
            let calls_v = c.get();
            alloc::reset();
            ev::LOG.clear();
            let (p, c) = (Cell::new(0), Cell::new(0));
            alloc::track(true);
            let before = live_blocks();
            let rh = catch_unwind(AssertUnwindSafe(|| match kind {
                "arc" => Arc::<T>::deserialize(&mut De { toks, pos: &p, calls: &c, fail_at: k, hr: true }).is_ok(),
                _ => UniqueArc::<T>::deserialize(&mut De { toks, pos: &p, calls: &c, fail_at: k, hr: true }).is_ok(),
            }));
            let pk = |r: &std::thread::Result<bool>| match r {
                Err(e) => e.downcast_ref::<DePanic>().map(|d| d.0 as i64).unwrap_or(-1),
                Ok(_) => -2,
            };
            let agree = pk(&rv) == pk(&rh) && pk(&rv) == k as i64;
            // (the panic's own payload is an allocation: gone before the blocks are counted)
            let rh: std::thread::Result<bool> = rh.map_err(|e| {
                drop(e);
                Box::new(()) as Box<dyn std::any::Any + Send>
            });
            alloc::track(false);
            DE_PANICS.store(false, SeqCst);
            let live_after = live_blocks() as i64 - before as i64;
            out.push(json!({"op": "de", "payload": format!("{} (the deserializer panics)", name), "kind": kind, "k": k, "cut": toks.len(), "ncalls": ncalls, "human_readable": 1,
                            "agree": agree as u8, "ok": 0, "value_equal": 1, "count": 0, "fresh": 1,
                            "live_after": live_after, "same_calls": (c.get() == calls_v) as u8}));
            drop((rv, rh));
            alloc::reset();
        }
    }
    std::panic::set_hook(prev);
}

/// `Deserialize::deserialize_in_place(d, &mut handle)`: the handle ends up a fresh sole owner of the new value, or is
/// left exactly as it was; another owner of the old value never sees anything change
fn de_in_place_case<T: for<'de> Deserialize<'de> + PartialEq + Clone + fmt::Debug>(name: &str, old: &T, toks: &[Tok], out: &mut Vec<Value>) {
    let (p0, c0) = (Cell::new(0), Cell::new(0));
    let _ = T::deserialize(&mut De { toks, pos: &p0, calls: &c0, fail_at: 0, hr: true });
    let ncalls = c0.get();
    let mut inputs: Vec<(usize, usize)> = (0..=(ncalls + 1)).map(|k| (k, toks.len())).collect();
    for cut in 0..toks.len() {
        inputs.push((0, cut));
    }
    for others in [0usize, 1, 2] {
        for (k, cut) in inputs.iter().cloned() {
            let t = &toks[..cut];
            let (p, c) = (Cell::new(0), Cell::new(0));
            let rv = T::deserialize(&mut De { toks: t, pos: &p, calls: &c, fail_at: k, hr: true });
            alloc::reset();
            ev::LOG.clear();
            let (p, c) = (Cell::new(0), Cell::new(0));
            alloc::track(true);
            let mut a = Arc::new(old.clone());
            let keep: Vec<Arc<T>> = (0..others).map(|_| a.clone()).collect();
            let old_heap = a.heap_ptr() as usize;
            let before = live_blocks();
            let r = <Arc<T> as Deserialize>::deserialize_in_place(&mut De { toks: t, pos: &p, calls: &c, fail_at: k, hr: true }, &mut a);
            alloc::track(false);
            let agree = match (&r, &rv) {
                (Ok(()), Ok(_)) => true,
                (Err(e1), Err(e2)) => e1 == e2,
                _ => false,
            };
            let ok = r.is_ok();
            let value_ok = match &rv {
                Ok(v) if ok => *a == *v,
                _ => *a == *old,
            };
            let others_intact = keep.iter().all(|h| **h == *old && h.heap_ptr() as usize == old_heap);
            let count = Arc::count(&a);
            let others_count = keep.first().map(|h| Arc::count(h)).unwrap_or(0);
            let moved = a.heap_ptr() as usize != old_heap;
            let live_delta = live_blocks() as i64 - before as i64;
            alloc::track(true);
            drop(r);
            drop(a);
            drop(keep);
            alloc::track(false);
            let left = live_blocks();
            out.push(json!({"op": "de_in_place", "payload": name, "kind": "arc", "k": k, "cut": cut, "ncalls": ncalls, "others": others,
                            "agree": agree as u8, "ok": ok as u8, "value_ok": value_ok as u8, "others_intact": others_intact as u8,
                            "count": count, "others_count": others_count, "moved": moved as u8, "live_delta": live_delta, "left": left}));
            alloc::reset();
        }
    }
}

/// the handle under test is the one the payload's own Serialize re-enters
fn ser_reentrant_case(out: &mut Vec<Value>) {
    let a = Arc::new(SelfRef(5));
    SELF_HANDLE.with(|h| *h.borrow_mut() = Some(a.clone()));
    let base = RefCell::new(Vec::with_capacity(4096));
    let _ = (*a).serialize(Rec { log: &base, fail_at: 0, hr: true });
    let ncalls = base.borrow().len();
    for k in 0..=(ncalls + 1) {
        let lv = RefCell::new(Vec::with_capacity(4096));
        let rv = (*a).serialize(Rec { log: &lv, fail_at: k, hr: true });
        let lh = RefCell::new(Vec::with_capacity(4096));
        let c0 = Arc::count(&a);
        let rh = a.serialize(Rec { log: &lh, fail_at: k, hr: true });
        let c1 = Arc::count(&a);
        let same_calls = *lh.borrow() == *lv.borrow();
        out.push(json!({"op": "ser", "payload": "SelfRef (its Serialize re-enters the handle's allocation once)", "kind": "arc_shared", "k": k, "ncalls": ncalls,
                        "human_readable": 1, "same_calls": same_calls as u8, "same_result": (rh == rv) as u8,
                        "count_before": c0, "count_after": c1, "live_delta": 0, "leaked": 0,
                        "detail": if same_calls && rh == rv { json!("-") } else { json!(format!("handle calls {:x?} result {:?}; value calls {:x?} result {:?}", lh.borrow(), rh, lv.borrow(), rv)) }}));
    }
    SELF_HANDLE.with(|h| *h.borrow_mut() = None);
}

pub fn run(out_path: &str) {
    let mut out: Vec<Value> = vec![json!({"op": "init"})];
    ser_reentrant_case(&mut out);
    unique_in_place_case(&mut out);
    bound_probe(&mut out);
    let outer = Outer { a: 7, inner: Inner { x: -3, s: "in".into() }, v: vec![Inner { x: 1, s: "a".into() }, Inner { x: 2, s: "b".into() }] };
    ser_case("u64", &42u64, &mut out);
    ser_case("String", &String::from("hello"), &mut out);
    ser_case("(u32,String)", &(5u32, String::from("t")), &mut out);
    ser_case("Vec<u16>", &vec![1u16, 2, 3], &mut out);
    ser_case("Option<i8>", &Some(3i8), &mut out);
    ser_case("Outer", &outer, &mut out);
    ser_case("UnitS (zero-sized)", &UnitS, &mut out);
    ser_case("PhantomData<u8> (zero-sized)", &std::marker::PhantomData::<u8>, &mut out);
    ser_case("[u32; 0] (zero-sized)", &[0u32; 0], &mut out);
    ser_case("() (zero-sized)", &(), &mut out);
    ser_case("((), UnitS)", &((), UnitS), &mut out);
    ser_case("Vec<Outer>", &vec![outer.clone(), outer.clone()], &mut out);
    ser_panic_case("(u32,String)", &(5u32, String::from("t")), &mut out);
    ser_panic_case("Outer", &outer, &mut out);
    ser_panic_case("Vec<u16>", &vec![1u16, 2, 3], &mut out);
    use Tok::*;
    de_case::<u64>("u64", &[U64(42)], &mut out);
    de_case::<String>("String", &[Str("hello".into())], &mut out);
    de_case::<(u32, String)>("(u32,String)", &[Seq(2), U64(5), Str("t".into())], &mut out);
    de_case::<Vec<u16>>("Vec<u16>", &[Seq(3), U64(1), U64(2), U64(3)], &mut out);
    let inner_t = |x: i64, s: &str| vec![Seq(2), I64(x), Str(s.into())];
    let mut ot = vec![Seq(3), U64(7)];
    ot.extend(inner_t(-3, "in"));
    ot.push(Seq(2));
    ot.extend(inner_t(1, "a"));
    ot.extend(inner_t(2, "b"));
    de_case::<Outer>("Outer", &ot, &mut out);
    de_case::<Inner>("Inner", &inner_t(9, "z"), &mut out);
    de_case::<Table>("Table (4.8 KB)", &[Seq(4), U64(1), U64(2), U64(3), U64(4)], &mut out);
    {
        let mut t = Table([0; 600]);
        t.0[..4].copy_from_slice(&[1, 2, 3, 4]);
        ser_case("Table (4.8 KB)", &t, &mut out);
    }
    de_panic_case::<u64>("u64", &[U64(42)], &mut out);
    de_panic_case::<(u32, String)>("(u32,String)", &[Seq(2), U64(5), Str("t".into())], &mut out);
    de_panic_case::<Outer>("Outer", &ot, &mut out);
    de_panic_case::<Table>("Table (4.8 KB)", &[Seq(4), U64(1), U64(2), U64(3), U64(4)], &mut out);
    de_in_place_case::<u64>("u64", &5u64, &[U64(42)], &mut out);
    de_in_place_case::<(u32, String)>("(u32,String)", &(1u32, String::from("old")), &[Seq(2), U64(5), Str("t".into())], &mut out);
    de_in_place_case::<Inner>("Inner", &Inner { x: 100, s: "old".into() }, &inner_t(9, "z"), &mut out);
    de_in_place_case::<Vec<u16>>("Vec<u16>", &vec![9u16], &[Seq(3), U64(1), U64(2), U64(3)], &mut out);
    use std::io::Write;
    let mut w = std::io::BufWriter::new(std::fs::File::create(out_path).unwrap());
    for l in &out {
        writeln!(w, "{}", l).unwrap();
    }
}
