//! Global, allocation-free event log shared by the allocator, the payload types and the
//! count tracer. Events are appended under a spin lock (so the order of the log is a total
//! order consistent with real time) and drained by the interpreter after every step.

use std::cell::{Cell, UnsafeCell};
use std::sync::atomic::{AtomicBool, AtomicUsize, Ordering};

#[derive(Clone, Copy, Debug, PartialEq, Eq)]
pub enum Ev {
    Alloc { addr: usize, size: usize, align: usize },
    AllocFail { size: usize, align: usize },
    /// status: 0 ok, 1 layout differs from the request, 2 block already freed
    Dealloc { addr: usize, size: usize, align: usize, status: u8, rsize: usize, ralign: usize, tid: u32 },
    /// payload destructor ran on a well-formed object
    Drop { id: u32, addr: usize, tid: u32 },
    /// payload destructor ran on something that is not a live object (poison / already dropped)
    BadDrop { addr: usize, magic: u32 },
    /// payload Clone::clone call (new == 0: the call panicked)
    Clone { src: u32, new: u32, tid: u32 },
    /// count operation (op: 0 load, 1 store, 2 fetch_add, 3 fetch_sub, 4 swap, 5 cas, 6 fence)
    /// order: 0 relaxed, 1 release, 2 acquire, 3 acqrel, 4 seqcst
    Atomic { cell: usize, op: u8, operand: usize, order: u8, seen: usize, tid: u32 },
    /// payload access recorded by the threaded runner (kind: 0 read, 1 write)
    Access { addr: usize, kind: u8, tid: u32 },
    /// marker written by the threaded runner
    Mark { tid: u32, code: u32, a: usize },
}

thread_local! {
    /// small id of the current thread (set by the threaded runner; 0 elsewhere)
    pub static TID: Cell<u32> = const { Cell::new(0) };
}
pub fn tid() -> u32 {
    TID.with(|t| t.get())
}

pub struct Log {
    lock: AtomicBool,
    len: AtomicUsize,
    cap: AtomicUsize,
    buf: UnsafeCell<*mut Ev>,
    pub overflow: AtomicBool,
}
unsafe impl Sync for Log {}

pub static LOG: Log = Log {
    lock: AtomicBool::new(false),
    len: AtomicUsize::new(0),
    cap: AtomicUsize::new(0),
    buf: UnsafeCell::new(std::ptr::null_mut()),
    overflow: AtomicBool::new(false),
};

/// allocate the buffer (call once, before anything is logged)
pub fn init(cap: usize) {
    let mut v: Vec<Ev> = Vec::with_capacity(cap);
    let p = v.as_mut_ptr();
    std::mem::forget(v);
    unsafe { *LOG.buf.get() = p };
    LOG.cap.store(cap, Ordering::SeqCst);
}

impl Log {
    #[inline]
    pub fn lock(&self) {
        while self
            .lock
            .compare_exchange_weak(false, true, Ordering::Acquire, Ordering::Relaxed)
            .is_err()
        {
            std::hint::spin_loop();
        }
    }
    #[inline]
    pub fn unlock(&self) {
        self.lock.store(false, Ordering::Release);
    }
    /// append while already holding the lock
    #[inline]
    pub fn push_locked(&self, e: Ev) {
        let n = self.len.load(Ordering::Relaxed);
        if n >= self.cap.load(Ordering::Relaxed) {
            self.overflow.store(true, Ordering::Relaxed);
            return;
        }
        unsafe { (*self.buf.get()).add(n).write(e) };
        self.len.store(n + 1, Ordering::Relaxed);
    }
    #[inline]
    pub fn push(&self, e: Ev) {
        self.lock();
        self.push_locked(e);
        self.unlock();
    }
    /// copy out and clear
    pub fn drain(&self, out: &mut Vec<Ev>) {
        // reserve outside the lock: the allocator may log
        let n0 = self.len.load(Ordering::Relaxed);
        out.reserve(n0 + 64);
        self.lock();
        let n = self.len.load(Ordering::Relaxed);
        let buf = unsafe { *self.buf.get() };
        for i in 0..n.min(out.capacity() - out.len()) {
            out.push(unsafe { *buf.add(i) });
        }
        self.len.store(0, Ordering::Relaxed);
        self.unlock();
    }
    pub fn clear(&self) {
        self.lock();
        self.len.store(0, Ordering::Relaxed);
        self.unlock();
    }
}

pub fn drain() -> Vec<Ev> {
    let mut v = Vec::new();
    LOG.drain(&mut v);
    v
}
