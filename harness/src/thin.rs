//! Interpreter for the header-slice / ThinArc family (`Thin.tla`).

use crate::alloc;
use crate::ev::{self, Ev};
use crate::payload::{Pay, Seen, A, E, NEXT_ID};
use crate::sized::{parse_op, Op, Res};
use serde_json::Value;
use std::ffi::c_void;
use std::mem::ManuallyDrop;
use std::panic::{catch_unwind, AssertUnwindSafe};
use std::sync::atomic::Ordering;
use triomphe::{Arc, HeaderSlice, HeaderSliceWithLengthProtected, HeaderWithLength, ThinArc};

type HW = HeaderWithLength<A>;
type Fat = Arc<HeaderSlice<HW, [E]>>;
type Prot = Arc<HeaderSliceWithLengthProtected<A, E>>;
type Thin = ThinArc<A, E>;

pub enum H {
    Fat(Fat),
    Prot(Prot),
    Thin(Thin),
    RawThin(*const c_void),
    TFat(*const Fat),
    TMut(*mut Prot),
}

#[derive(Debug, Clone)]
pub struct Obs {
    pub kind: &'static str,
    pub counts: Vec<(&'static str, usize)>,
    pub hdr: Seen,
    pub rec: usize,
    pub len: usize,
    pub elems: Vec<Seen>,
    pub heap: usize,
    pub hdr_addr: usize,
    pub slice_addr: usize,
    pub notes: Vec<String>,
}

const MAXREAD: usize = 8;

fn obs_fat(kind: &'static str, a: &Fat) -> Obs {
    Obs {
        kind,
        counts: vec![("Arc::count", Arc::count(a)), ("Arc::strong_count", Arc::strong_count(a))],
        hdr: a.header.header.see(),
        rec: a.header.length,
        len: a.slice.len(),
        elems: a.slice.iter().take(MAXREAD).map(|e| e.see()).collect(),
        heap: a.heap_ptr() as usize,
        hdr_addr: &a.header.header as *const A as usize,
        slice_addr: a.slice.as_ptr() as usize,
        notes: vec![],
    }
}
fn obs_prot(kind: &'static str, a: &Prot) -> Obs {
    Obs {
        kind,
        counts: vec![("Arc::count", Arc::count(a)), ("Arc::strong_count", Arc::strong_count(a))],
        hdr: a.header().see(),
        rec: a.length(),
        len: a.slice().len(),
        elems: a.slice().iter().take(MAXREAD).map(|e| e.see()).collect(),
        heap: a.heap_ptr() as usize,
        hdr_addr: a.header() as *const A as usize,
        slice_addr: a.slice().as_ptr() as usize,
        notes: vec![],
    }
}
fn obs_thin(kind: &'static str, t: &Thin) -> Obs {
    let mut notes = vec![];
    let counts = vec![
        ("ThinArc::strong_count", Thin::strong_count(t)),
        ("ThinArc::with_arc(count)", t.with_arc(|a| Arc::count(a))),
        ("after callbacks", Thin::strong_count(t)),
    ];
    // the fat view of the same allocation must coincide with the thin view, address for address
    let fat = t.with_arc(|a| (a.heap_ptr() as usize, &a.header.header as *const A as usize, a.slice.as_ptr() as usize, a.slice.len(), a.header.length));
    let hdr_addr = &t.header.header as *const A as usize;
    let slice_addr = t.slice.as_ptr() as usize;
    if fat.1 != hdr_addr || fat.2 != slice_addr || fat.3 != t.slice.len() || fat.4 != t.header.length {
        notes.push(format!("thin view (hdr {:#x}, slice {:#x}, len {}) differs from the fat view of with_arc (hdr {:#x}, slice {:#x}, len {})",
            hdr_addr, slice_addr, t.slice.len(), fat.1, fat.2, fat.3));
    }
    let heap = t.heap_ptr() as usize;
    if t.ptr() as usize != heap || t.as_ptr() as usize != heap || fat.0 != heap {
        notes.push("ThinArc::ptr / as_ptr / heap_ptr / with_arc(heap_ptr) disagree".into());
    }
    if std::mem::size_of::<Thin>() != std::mem::size_of::<usize>() || std::mem::size_of::<Option<Thin>>() != std::mem::size_of::<usize>() {
        notes.push("ThinArc is not one word with a niche".into());
    }
    Obs {
        kind,
        counts,
        hdr: t.header.header.see(),
        rec: t.header.length,
        len: t.slice.len(),
        elems: t.slice.iter().take(MAXREAD).map(|e| e.see()).collect(),
        heap,
        hdr_addr,
        slice_addr,
        notes,
    }
}

pub fn observe(h: &H) -> Obs {
    unsafe {
        match h {
            H::Fat(a) => obs_fat("Fat", a),
            H::TFat(p) => obs_fat("TFat", &**p),
            H::Prot(a) => obs_prot("Prot", a),
            H::TMut(p) => obs_prot("TMut", &**p),
            H::Thin(t) => obs_thin("Thin", t),
            H::RawThin(p) => {
                let t = ManuallyDrop::new(Thin::from_raw(*p));
                let mut o = obs_thin("RawThin", &t);
                if *p as usize != o.heap {
                    o.notes.push("raw thin pointer is not the block address".into());
                }
                o
            }
        }
    }
}

#[derive(Debug, Clone)]
pub struct BlockInfo {
    pub addr: usize,
    pub hid: u32,
    pub eids: Vec<u32>,
}

#[derive(PartialEq, Clone, Copy, Debug)]
enum Flow {
    End,
    Exit(bool),
}
struct FramePanic;

pub struct Ctx {
    pub slots: Vec<Option<H>>,
    pub blocks: Vec<BlockInfo>,
    pub events: Vec<Ev>,
    pub last: Res,
    pub ops: Vec<Op>,
    pub pos: usize,
    pub expect: Option<Value>,
    pub errors: Vec<String>,
    pub checked: bool,
    pub id0: u32,
    pub depth: usize,
    pub panics_caught: Vec<Box<dyn std::any::Any + Send>>,
    /// slots whose ThinArc is mutably lent to an open with_arc_mut frame: unobservable in Rust too
    pub mut_lent: Vec<usize>,
}

macro_rules! bad {
    ($self:ident, $($arg:tt)*) => {{ $self.errors.push(format!($($arg)*)); }};
}

fn elems(n: usize) -> Vec<E> {
    (0..n).map(|i| E::mk(100 + i as u32)).collect()
}

impl Ctx {
    pub fn new(nslots: usize) -> Ctx {
        Ctx {
            slots: (0..=nslots).map(|_| None).collect(),
            blocks: vec![],
            events: vec![],
            last: Res::default(),
            ops: vec![],
            pos: 0,
            expect: None,
            errors: vec![],
            checked: false,
            id0: NEXT_ID.load(Ordering::SeqCst),
            depth: 0,
            panics_caught: vec![],
            mut_lent: vec![],
        }
    }
    fn collect(&mut self) {
        let evs = ev::drain();
        self.events.extend(evs);
    }
    fn take(&mut self, s: usize) -> Option<H> {
        self.slots.get_mut(s).and_then(|x| x.take())
    }
    fn put(&mut self, d: usize, h: H) {
        if d == 0 || d >= self.slots.len() || self.slots[d].is_some() {
            bad!(self, "[harness] bad destination slot {}", d);
            std::mem::forget(h);
            return;
        }
        self.slots[d] = Some(h);
    }
    fn block_of(&self, addr: usize) -> usize {
        self.blocks.iter().position(|b| b.addr == addr).map(|i| i + 1).unwrap_or(0)
    }
    fn call<R>(&mut self, f: impl FnOnce() -> R) -> Option<R> {
        alloc::track(true);
        let r = catch_unwind(AssertUnwindSafe(f));
        alloc::track(false);
        match r {
            Ok(v) => Some(v),
            Err(p) => {
                if let Some(b) = p.downcast_ref::<crate::payload::HarnessBug>() {
                    self.errors.push(format!("[harness] {}", b.0));
                }
                self.last.panicked = true;
                self.panics_caught.push(p);
                None
            }
        }
    }

    fn run(&mut self) -> Flow {
        while self.pos < self.ops.len() {
            let op = self.ops[self.pos].clone();
            self.pos += 1;
            if op.name == "Exit" {
                if self.depth == 0 {
                    bad!(self, "[harness] Exit outside a frame");
                    continue;
                }
                return Flow::Exit(op.x == "panic");
            }
            self.last = Res::default();
            self.step(&op);
            self.collect();
        }
        if !self.checked {
            self.checked = true;
            self.final_check();
        }
        Flow::End
    }

    fn frame_body(&mut self, d: usize, t: H) -> usize {
        alloc::track(false);
        self.put(d, t);
        self.depth += 1;
        let saved = std::mem::take(&mut self.last);
        let flow = self.run();
        self.depth -= 1;
        if let Some(h) = self.slots[d].take() {
            std::mem::forget(h);
        }
        self.last = saved;
        alloc::track(true);
        if flow == Flow::Exit(true) {
            std::panic::panic_any(FramePanic);
        }
        4242
    }

    fn step(&mut self, op: &Op) {
        let (s, d) = (op.s, op.d);
        match op.name.as_str() {
            "NewFat" | "NewThin" => {
                let len = op.s;
                let rec = op.w as usize;
                let v = op.v;
                let name = op.name.clone();
                let how = op.x.clone();
                let mut eids: Vec<u32> = Vec::with_capacity(len + 1);
                let eref = &mut eids;
                let r = self.call(move || {
                    let hdr = A::mk(v);
                    let hid = hdr.see().id;
                    let es = elems(len);
                    for e in es.iter() {
                        eref.push(e.see().id); // within capacity: no allocation
                    }
                    let h = if name == "NewThin" {
                        H::Thin(ThinArc::from_header_and_iter(hdr, es.into_iter()))
                    } else if how == "vec" {
                        let mut es = es;
                        es.reserve(2);
                        H::Fat(Arc::from_header_and_vec(HeaderWithLength::new(hdr, rec), es))
                    } else {
                        H::Fat(Arc::from_header_and_iter(HeaderWithLength::new(hdr, rec), es.into_iter()))
                    };
                    (h, hid)
                });
                let r = r.map(|(h, hid)| (h, hid, eids));
                if let Some((h, hid, eids)) = r {
                    let addr = match &h {
                        H::Fat(a) => a.heap_ptr() as usize,
                        H::Thin(t) => t.heap_ptr() as usize,
                        _ => 0,
                    };
                    self.blocks.push(BlockInfo { addr, hid, eids });
                    self.put(d, h);
                }
            }
            "Clone" => {
                let n = match &self.slots[s] {
                    Some(h) => {
                        let hp: *const H = h;
                        self.call(|| unsafe {
                            match &*hp {
                                H::Fat(a) => H::Fat(a.clone()),
                                H::Prot(a) => H::Prot(a.clone()),
                                H::Thin(a) => H::Thin(a.clone()),
                                H::TFat(p) => H::Fat((**p).clone()),
                                H::TMut(p) => H::Prot((**p).clone()),
                                _ => crate::payload::harness_bug("Clone on wrong kind"),
                            }
                        })
                    }
                    None => None,
                };
                if let Some(n) = n {
                    self.put(d, n);
                }
            }
            "CloneFrom" => {
                let src: *const H = match &self.slots[d] {
                    Some(h) => h,
                    None => std::ptr::null(),
                };
                let dst: *mut H = match self.slots[s].as_mut() {
                    Some(h) => h,
                    None => std::ptr::null_mut(),
                };
                if src.is_null() || dst.is_null() {
                    bad!(self, "[harness] CloneFrom on empty slot");
                } else {
                    self.call(|| unsafe {
                        match (&mut *dst, &*src) {
                            (H::Fat(x), H::Fat(y)) => x.clone_from(y),
                            (H::Prot(x), H::Prot(y)) => x.clone_from(y),
                            (H::Thin(x), H::Thin(y)) => x.clone_from(y),
                            _ => crate::payload::harness_bug("CloneFrom on wrong kinds"),
                        }
                    });
                }
            }
            "Drop" => {
                if let Some(h) = self.take(s) {
                    self.call(move || match h {
                        H::Fat(a) => drop(a),
                        H::Prot(a) => drop(a),
                        H::Thin(a) => drop(a),
                        _ => crate::payload::harness_bug("Drop on wrong kind"),
                    });
                }
            }
            "IntoThin" => {
                if let Some(H::Fat(a)) = self.take(s) {
                    let w0 = crate::trace::COUNT_WRITES.load(Ordering::Relaxed);
                    if let Some(t) = self.call(move || Arc::into_thin(a)) {
                        self.put(s, H::Thin(t));
                        // a refused conversion releases its argument; an accepted one is a pointer cast
                        let w = crate::trace::COUNT_WRITES.load(Ordering::Relaxed) - w0;
                        if w != 0 {
                            bad!(self, "[touch] IntoThin performed {} modifying operation(s) on a reference count; thin <-> fat conversions do not touch the count", w);
                        }
                    }
                } else {
                    bad!(self, "[harness] IntoThin on wrong kind");
                }
            }
            "FromThin" | "ProtFromThin" | "ProtIntoThin" | "ThinIntoRaw" | "ThinFromRaw" | "ThinIntoPtr" | "ThinFromPtr" => {
                if let Some(h) = self.take(s) {
                    let name = op.name.clone();
                    let w0 = crate::trace::COUNT_WRITES.load(Ordering::Relaxed);
                    let n = self.call(move || unsafe {
                        match (name.as_str(), h) {
                            ("FromThin", H::Thin(t)) => H::Fat(Arc::from_thin(t)),
                            ("ProtFromThin", H::Thin(t)) => H::Prot(Arc::protected_from_thin(t)),
                            ("ProtIntoThin", H::Prot(a)) => H::Thin(Arc::protected_into_thin(a)),
                            ("ThinIntoRaw", H::Thin(t)) => H::RawThin(t.into_raw()),
                            ("ThinFromRaw", H::RawThin(p)) => H::Thin(Thin::from_raw(p)),
                            ("ThinIntoPtr", H::Thin(t)) => H::RawThin(<Thin as arc_swap::RefCnt>::into_ptr(t) as *const std::ffi::c_void),
                            ("ThinFromPtr", H::RawThin(p)) => H::Thin(<Thin as arc_swap::RefCnt>::from_ptr(p as *const <Thin as arc_swap::RefCnt>::Base)),
                            (n, h) => {
                                std::mem::forget(h);
                                crate::payload::harness_bug(&format!("{} on wrong kind", n))
                            }
                        }
                    });
                    if let Some(n) = n {
                        self.put(s, n);
                    }
                    let w = crate::trace::COUNT_WRITES.load(Ordering::Relaxed) - w0;
                    if w != 0 {
                        bad!(self, "[touch] {} performed {} modifying operation(s) on a reference count; thin <-> fat / raw conversions do not touch the count", op.name, w);
                    }
                }
            }
            "Enter" => {
                let this: *mut Ctx = self;
                let tp: *mut Thin = match self.slots[s].as_mut() {
                    Some(H::Thin(t)) => t,
                    _ => {
                        bad!(self, "[harness] Enter on wrong kind");
                        return;
                    }
                };
                let r = unsafe {
                    if op.x == "with_arc_mut" {
                        self.mut_lent.push(s);
                        let r = self.call(|| (*tp).with_arc_mut(|a| (*this).frame_body(d, H::TMut(a))));
                        self.mut_lent.pop();
                        r
                    } else {
                        self.call(|| (*tp).with_arc(|a| (*this).frame_body(d, H::TFat(a))))
                    }
                };
                match r {
                    Some(4242) => {}
                    Some(x) => bad!(self, "[frame] callback result not forwarded: got {}", x),
                    None => {
                        if !self.panics_caught.last().map(|p| p.is::<FramePanic>()).unwrap_or(false) {
                            bad!(self, "[panicked] with_arc-style call panicked with a foreign payload");
                        }
                    }
                }
            }
            "Replace" => {
                // *arc = other
                let src = self.take(d);
                match (self.slots[s].as_ref(), src) {
                    (Some(H::TMut(p)), Some(H::Prot(other))) => {
                        let p = *p;
                        self.call(move || unsafe { *p = other });
                    }
                    _ => bad!(self, "[harness] Replace on wrong kinds"),
                }
            }
            "Swap" => {
                let op_: *mut Prot = match self.slots[d].as_mut() {
                    Some(H::Prot(a)) => a,
                    _ => std::ptr::null_mut(),
                };
                match self.slots[s].as_ref() {
                    Some(H::TMut(p)) if !op_.is_null() => {
                        let p = *p;
                        self.call(move || unsafe { std::mem::swap(&mut *p, &mut *op_) });
                    }
                    _ => bad!(self, "[harness] Swap on wrong kinds"),
                }
            }
            "GetMut" => {
                let v = op.v;
                let r = match self.slots[s].as_mut() {
                    Some(h) => {
                        let hp: *mut H = h;
                        self.call(|| unsafe {
                            match &mut *hp {
                                H::Fat(a) => match Arc::get_mut(a) {
                                    Some(r) => {
                                        r.header.header.set_val(v);
                                        true
                                    }
                                    None => false,
                                },
                                H::Prot(a) => match Arc::get_mut(a) {
                                    Some(r) => {
                                        r.header_mut().set_val(v);
                                        true
                                    }
                                    None => false,
                                },
                                H::TMut(p) => match Arc::get_mut(&mut **p) {
                                    Some(r) => {
                                        r.header_mut().set_val(v);
                                        if let Some(e) = r.slice_mut().first_mut() {
                                            let keep = e.see().val;
                                            e.set_val(keep);
                                        }
                                        true
                                    }
                                    None => false,
                                },
                                _ => crate::payload::harness_bug("GetMut on wrong kind"),
                            }
                        })
                    }
                    None => None,
                };
                self.last.verdict = r;
            }
            other => bad!(self, "[harness] unknown op {}", other),
        }
    }

    fn final_check(&mut self) {
        self.collect();
        let x = match self.expect.take() {
            Some(x) => x,
            None => return,
        };
        let (xb, xh, xr) = (&x[0], &x[1], &x[2]);
        let nslots = self.slots.len() - 1;
        let mut per_block: Vec<Vec<(usize, Obs)>> = vec![vec![]; self.blocks.len() + 1];
        for s in 1..=nslots {
            let ek = xh[s - 1][0].as_str().unwrap_or("?");
            let eb = xh[s - 1][1].as_u64().unwrap_or(0) as usize;
            match &self.slots[s] {
                None => {
                    if ek != "none" {
                        bad!(self, "[kind] slot {}: expected a {} handle, implementation has none", s, ek);
                    }
                }
                Some(h) => {
                    if self.mut_lent.contains(&s) {
                        if ek != "Thin" {
                            bad!(self, "[kind] slot {}: expected kind {}, got a (mutably lent) Thin", s, ek);
                        }
                        continue;
                    }
                    let o = observe(h);
                    if ek != o.kind {
                        bad!(self, "[kind] slot {}: expected kind {}, got {}", s, ek, o.kind);
                    }
                    let b = self.block_of(o.heap);
                    if b != eb {
                        bad!(self, "[block] slot {} ({}): expected block {}, handle points at block {} (addr {:#x})", s, o.kind, eb, b, o.heap);
                    }
                    for n in &o.notes {
                        bad!(self, "[thin] slot {} ({}): {}", s, o.kind, n);
                    }
                    if !o.hdr.ok {
                        bad!(self, "[poison] slot {} ({}): header read through the handle is not a live object (magic {:#x})", s, o.kind, o.hdr.magic);
                    }
                    if b != 0 && b < per_block.len() {
                        per_block[b].push((s, o));
                    }
                }
            }
        }
        let mut drops: std::collections::HashMap<u32, u32> = Default::default();
        let mut frees: std::collections::HashMap<usize, u32> = Default::default();
        for e in &self.events {
            match e {
                Ev::Drop { id, .. } => *drops.entry(*id).or_default() += 1,
                Ev::Dealloc { addr, status, size, align, rsize, ralign, .. } => {
                    *frees.entry(*addr).or_default() += 1;
                    if *status == 1 {
                        self.errors.push(format!("[layout] block {:#x} requested with (size {}, align {}) but released with (size {}, align {})", addr, rsize, ralign, size, align));
                    } else if *status != 0 {
                        self.errors.push(format!("[frees] block {:#x} released twice or never allocated (status {})", addr, status));
                    }
                }
                Ev::BadDrop { addr, magic } => self.errors.push(format!("[baddrop] destructor ran on something that is not a live object at {:#x} (magic {:#x})", addr, magic)),
                _ => {}
            }
        }
        let nb = xb.as_array().map(|a| a.len()).unwrap_or(0);
        let allocated_expected = (0..nb).filter(|i| xb[*i][0] != "none").count();
        if allocated_expected != self.blocks.len() {
            bad!(self, "[stray] specification has {} allocated blocks, implementation made {}", allocated_expected, self.blocks.len());
        }
        for i in 0..nb.min(self.blocks.len()) {
            let st = xb[i][0].as_str().unwrap_or("?");
            let g = |k: usize| xb[i][k].as_u64().unwrap_or(0);
            let (rc, len, rec, val, xhd, xed, xfr) = (g(1) as usize, g(2) as usize, g(3) as usize, g(4) as u32, g(5) as u32, g(6) as u32, g(7) as u32);
            let info = self.blocks[i].clone();
            let hd = *drops.get(&info.hid).unwrap_or(&0);
            let ed: u32 = info.eids.iter().map(|id| *drops.get(id).unwrap_or(&0)).sum();
            let emax: u32 = info.eids.iter().map(|id| *drops.get(id).unwrap_or(&0)).max().unwrap_or(0);
            let f = *frees.get(&info.addr).unwrap_or(&0);
            if hd != xhd {
                bad!(self, "[drops] block {} ({}): header destroyed {} time(s), specification says {}", i + 1, st, hd, xhd);
            }
            if ed != xed || emax > 1 {
                bad!(self, "[drops] block {} ({}): {} element destructor run(s) (max {} per element), specification says {} (one per element)", i + 1, st, ed, emax, xed);
            }
            if f != xfr {
                bad!(self, "[frees] block {} ({}): memory released {} time(s), specification says {}", i + 1, st, f, xfr);
            }
            if st == "live" {
                for (s, o) in &per_block[i + 1] {
                    for (name, c) in &o.counts {
                        if *c != rc {
                            self.errors.push(format!("[count] block {}: {} through slot {} ({}) reports {}, specification says {} owner(s)", i + 1, name, s, o.kind, c, rc));
                        }
                    }
                    if o.hdr.val != val || o.hdr.id != info.hid {
                        bad!(self, "[value] block {}: header read through slot {} ({}) is (id {}, val {}), specification says val {}", i + 1, s, o.kind, o.hdr.id, o.hdr.val, val);
                    }
                    if o.len != len {
                        bad!(self, "[thin] block {}: slice length through slot {} ({}) is {}, specification says {}", i + 1, s, o.kind, o.len, len);
                    }
                    if o.rec != rec {
                        bad!(self, "[thin] block {}: recorded length through slot {} ({}) is {}, specification says {}", i + 1, s, o.kind, o.rec, rec);
                    }
                    let ids: Vec<u32> = o.elems.iter().map(|e| e.id).collect();
                    let want: Vec<u32> = info.eids.iter().take(MAXREAD).cloned().collect();
                    if o.len == len && (ids != want || o.elems.iter().any(|e| !e.ok)) {
                        bad!(self, "[contents] block {}: elements through slot {} ({}) are not the ones that were put in", i + 1, s, o.kind);
                    }
                    // same addresses through every kind of handle
                    let (h0, s0) = (per_block[i + 1][0].1.hdr_addr, per_block[i + 1][0].1.slice_addr);
                    if o.hdr_addr != h0 || o.slice_addr != s0 {
                        bad!(self, "[addr] block {}: header/slice addresses through slot {} ({}) differ from those through slot {}", i + 1, s, o.kind, per_block[i + 1][0].0);
                    }
                }
                match alloc::lookup(info.addr) {
                    Some(r) if r.live => {}
                    _ => bad!(self, "[frees] block {}: live in the specification but not a live allocation", i + 1),
                }
            }
        }
        let xop = xr[0].as_str().unwrap_or("-");
        let xver = xr[2].as_str().unwrap_or("-");
        let xpan = xr[3].as_u64().unwrap_or(0) == 1;
        if xver != "-" {
            let want = xver == "yes";
            if self.last.verdict != Some(want) {
                bad!(self, "[verdict] {}: uniqueness verdict {:?}, specification says {}", xop, self.last.verdict, xver);
            }
        }
        if self.last.panicked != xpan {
            bad!(self, "[panicked] {}: panicked = {}, specification says {}", xop, self.last.panicked, xpan);
        }
    }

    fn drain_and_account(&mut self) {
        for s in 0..self.slots.len() {
            if let Some(h) = self.slots[s].take() {
                let r = self.call(move || unsafe {
                    match h {
                        H::RawThin(p) => drop(Thin::from_raw(p)),
                        H::TFat(_) | H::TMut(_) => {}
                        H::Fat(a) => drop(a),
                        H::Prot(a) => drop(a),
                        H::Thin(a) => drop(a),
                    }
                });
                if r.is_none() {
                    bad!(self, "[drain] releasing slot {} panicked", s);
                }
            }
        }
        self.panics_caught.clear();
        self.collect();
        let id1 = NEXT_ID.load(Ordering::SeqCst);
        let mut drops: std::collections::HashMap<u32, u32> = Default::default();
        for e in &self.events {
            match e {
                Ev::Drop { id, .. } => *drops.entry(*id).or_default() += 1,
                Ev::BadDrop { addr, magic } => self.errors.push(format!("[baddrop] drain: destructor ran on something that is not a live object at {:#x} (magic {:#x})", addr, magic)),
                _ => {}
            }
        }
        for id in self.id0..id1 {
            let d = *drops.get(&id).unwrap_or(&0);
            if d != 1 {
                bad!(self, "[drain] object {} destroyed {} time(s) by the time every handle is gone", id - self.id0 + 1, d);
            }
        }
        if alloc::overruns() > 0 {
            bad!(self, "[overrun] {} block(s) were written past their end (red zone damaged)", alloc::overruns());
        }
        for r in alloc::table() {
            if r.live || r.frees != 1 {
                bad!(self, "[drain] allocation of {} bytes (align {}) released {} time(s) by the time every handle is gone", r.size, r.align, r.frees);
            }
        }
        for e in &self.events {
            if let Ev::Dealloc { status, addr, size, align, rsize, ralign, .. } = e {
                if *status != 0 {
                    let m = format!("[layout] drain: block {:#x} requested (size {}, align {}), released (size {}, align {}), status {}", addr, rsize, ralign, size, align, status);
                    if !self.errors.contains(&m) {
                        self.errors.push(m);
                    }
                }
            }
        }
    }
}

pub fn replay_line(nslots: usize, h: &Value, x: &Value) -> Vec<String> {
    alloc::reset();
    ev::LOG.clear();
    let mut ctx = Ctx::new(nslots);
    ctx.ops = h.as_array().map(|a| a.iter().map(parse_op).collect()).unwrap_or_default();
    ctx.expect = Some(x.clone());
    let flow = ctx.run();
    if flow != Flow::End {
        ctx.errors.push("[harness] history ended with an unmatched Exit".into());
    }
    ctx.drain_and_account();
    let errs = std::mem::take(&mut ctx.errors);
    drop(ctx);
    alloc::reset();
    errs
}
