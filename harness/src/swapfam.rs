//! Interpreter for the arc-swap family (`Swap.tla`): real `arc_swap::ArcSwapAny` cells over triomphe's
//! `RefCnt` glue for `Arc<T>` and `ThinArc<H, T>` (src/arc_swap_support.rs).

use crate::alloc;
use crate::ev::{self, Ev};
use crate::payload::{Pay, Seen, A, E, NEXT_ID};
use crate::sized::{parse_op, Op, Res};
use arc_swap::{ArcSwapAny, Guard};
use serde_json::Value;
use std::mem::MaybeUninit;
use std::panic::{catch_unwind, AssertUnwindSafe};
use std::sync::atomic::Ordering;
use triomphe::{Arc, ThinArc};

type MU = MaybeUninit<E>;
type Thin = ThinArc<A, u32>;

pub enum H {
    E(Arc<E>),
    U(Arc<MU>),
    T(Thin),
    GE(Guard<Arc<E>>),
    GU(Guard<Arc<MU>>),
    GT(Guard<Thin>),
}

pub enum C {
    E(ArcSwapAny<Arc<E>>),
    U(ArcSwapAny<Arc<MU>>),
    T(ArcSwapAny<Thin>),
}

pub struct Obs {
    kind: &'static str,
    count: usize,
    heap: usize,
}

fn thin_count(t: &Thin) -> usize {
    t.with_arc(|a| Arc::count(a))
}

pub fn observe(h: &H) -> Obs {
    match h {
        H::E(a) => Obs { kind: "Arc", count: Arc::count(a), heap: a.heap_ptr() as usize },
        H::U(a) => Obs { kind: "Arc", count: Arc::count(a), heap: a.heap_ptr() as usize },
        H::T(t) => Obs { kind: "Arc", count: thin_count(t), heap: t.heap_ptr() as usize },
        H::GE(g) => Obs { kind: "Grd", count: Arc::count(g), heap: g.heap_ptr() as usize },
        H::GU(g) => Obs { kind: "Grd", count: Arc::count(g), heap: g.heap_ptr() as usize },
        H::GT(g) => Obs { kind: "Grd", count: thin_count(g), heap: g.heap_ptr() as usize },
    }
}

/// the value seen through a handle or guard (`written`: whether an uninit block holds an object)
unsafe fn value(h: &H, written: bool) -> Option<Seen> {
    match h {
        H::E(a) => Some(a.see()),
        H::GE(g) => Some(g.see()),
        H::U(a) => written.then(|| E::peek(a.as_ptr() as *const E)),
        H::GU(g) => written.then(|| E::peek(g.as_ptr() as *const E)),
        H::T(t) => Some(t.header.header.see()),
        H::GT(g) => Some(g.header.header.see()),
    }
}

fn cell_heap(c: &C) -> usize {
    match c {
        C::E(c) => c.load().heap_ptr() as usize,
        C::U(c) => c.load().heap_ptr() as usize,
        C::T(c) => c.load().heap_ptr() as usize,
    }
}

pub struct BlockInfo {
    addr: usize,
    how: &'static str,
    /// identity of the object destroyed with the block (payload / thin header); 0 for uninit
    pid: u32,
    /// identities of objects written into an uninit block: never destroyed by the crate
    written: Vec<u32>,
}

pub struct Ctx {
    slots: Vec<Option<H>>,
    cells: Vec<Option<C>>,
    blocks: Vec<BlockInfo>,
    events: Vec<Ev>,
    last: Res,
    errors: Vec<String>,
    id0: u32,
    panics: Vec<Box<dyn std::any::Any + Send>>,
}

macro_rules! bad {
    ($self:ident, $($arg:tt)*) => {{ $self.errors.push(format!($($arg)*)); }};
}

/// arc-swap allocates its per-thread bookkeeping on first use and keeps it: do that before anything is tracked
fn warm_up() {
    static DONE: std::sync::atomic::AtomicBool = std::sync::atomic::AtomicBool::new(false);
    if DONE.swap(true, Ordering::SeqCst) {
        return;
    }
    let c: ArcSwapAny<std::sync::Arc<u32>> = ArcSwapAny::new(std::sync::Arc::new(0u32));
    let g = c.load();
    c.store(std::sync::Arc::new(1u32));
    drop(g);
    let _ = c.load_full();
}

impl Ctx {
    fn call<R>(&mut self, f: impl FnOnce() -> R) -> Option<R> {
        alloc::track(true);
        let r = catch_unwind(AssertUnwindSafe(f));
        alloc::track(false);
        match r {
            Ok(v) => Some(v),
            Err(p) => {
                if let Some(b) = p.downcast_ref::<crate::payload::HarnessBug>() {
                    self.errors.push(format!("[harness] {}", b.0));
                }
                self.last.panicked = true;
                self.panics.push(p);
                None
            }
        }
    }
    fn block_of(&self, addr: usize) -> usize {
        self.blocks.iter().position(|b| b.addr == addr).map(|i| i + 1).unwrap_or(0)
    }

    #[allow(deprecated)]
    fn step(&mut self, op: &Op) {
        let (s, d) = (op.s, op.d);
        let ci = op.v as usize; // cell index, for the cell operations
        match op.name.as_str() {
            "New" => {
                let how = op.x.clone();
                let v = op.v;
                let r = self.call(move || match how.as_str() {
                    "init" => {
                        let e = E::mk(v);
                        let id = e.see().id;
                        (H::E(Arc::new(e)), id, "init")
                    }
                    "uninit" => (H::U(Arc::<MU>::new_uninit()), 0, "uninit"),
                    _ => {
                        let hd = A::mk(v);
                        let id = hd.see().id;
                        (H::T(ThinArc::from_header_and_slice(hd, &[1u32, 2, 3])), id, "thin")
                    }
                });
                if let Some((h, pid, how)) = r {
                    let o = observe(&h);
                    self.blocks.push(BlockInfo { addr: o.heap, how, pid, written: vec![] });
                    self.slots[d] = Some(h);
                }
            }
            "Clone" => {
                let n = match &self.slots[s] {
                    Some(h) => {
                        let hp: *const H = h;
                        self.call(|| unsafe {
                            match &*hp {
                                H::E(a) => H::E(a.clone()),
                                H::U(a) => H::U(a.clone()),
                                H::T(a) => H::T(a.clone()),
                                _ => crate::payload::harness_bug("Clone on a guard"),
                            }
                        })
                    }
                    None => None,
                };
                if let Some(n) = n {
                    self.slots[d] = Some(n);
                }
            }
            "Drop" => {
                if let Some(h) = self.slots[s].take() {
                    self.call(move || drop(h));
                }
            }
            "Read" => {}
            "CellNew" => {
                if let Some(h) = self.slots[s].take() {
                    let c = self.call(move || match h {
                        H::E(a) => C::E(ArcSwapAny::new(a)),
                        H::U(a) => C::U(ArcSwapAny::new(a)),
                        H::T(a) => C::T(ArcSwapAny::new(a)),
                        _ => crate::payload::harness_bug("CellNew from a guard"),
                    });
                    self.cells[ci] = c;
                }
            }
            "LoadFull" | "Load" => {
                let full = op.name == "LoadFull";
                let n = match &self.cells[ci] {
                    Some(c) => {
                        let cp: *const C = c;
                        self.call(move || unsafe {
                            match (&*cp, full) {
                                (C::E(c), true) => H::E(c.load_full()),
                                (C::U(c), true) => H::U(c.load_full()),
                                (C::T(c), true) => H::T(c.load_full()),
                                (C::E(c), false) => H::GE(c.load()),
                                (C::U(c), false) => H::GU(c.load()),
                                (C::T(c), false) => H::GT(c.load()),
                            }
                        })
                    }
                    None => None,
                };
                if let Some(n) = n {
                    self.slots[d] = Some(n);
                }
            }
            "Upgrade" => {
                if let Some(h) = self.slots[s].take() {
                    let n = self.call(move || match h {
                        H::GE(g) => H::E(Guard::into_inner(g)),
                        H::GU(g) => H::U(Guard::into_inner(g)),
                        H::GT(g) => H::T(Guard::into_inner(g)),
                        _ => crate::payload::harness_bug("Upgrade of a handle"),
                    });
                    self.slots[s] = n;
                }
            }
            "Store" | "Swap" => {
                let swap = op.name == "Swap";
                if let (Some(h), Some(c)) = (self.slots[s].take(), self.cells[ci].as_ref()) {
                    let cp: *const C = c;
                    let n = self.call(move || unsafe {
                        match (&*cp, h, swap) {
                            (C::E(c), H::E(a), false) => {
                                c.store(a);
                                None
                            }
                            (C::U(c), H::U(a), false) => {
                                c.store(a);
                                None
                            }
                            (C::T(c), H::T(a), false) => {
                                c.store(a);
                                None
                            }
                            (C::E(c), H::E(a), true) => Some(H::E(c.swap(a))),
                            (C::U(c), H::U(a), true) => Some(H::U(c.swap(a))),
                            (C::T(c), H::T(a), true) => Some(H::T(c.swap(a))),
                            _ => crate::payload::harness_bug("Store/Swap with mismatching types"),
                        }
                    });
                    if let Some(n) = n {
                        self.slots[s] = n;
                    }
                }
            }
            "Cas" => {
                // s: compared by reference; d: the new value, consumed
                let new = self.slots[d].take();
                if let (Some(new), Some(cur), Some(c)) = (new, self.slots[s].as_ref(), self.cells[ci].as_ref()) {
                    let cp: *const C = c;
                    let curp: *const H = cur;
                    let cur_heap = observe(cur).heap;
                    let r = self.call(move || unsafe {
                        // the returned guard holds the previous content of the cell
                        let prev_heap = match (&*cp, &*curp, new) {
                            (C::E(c), H::E(a), H::E(n)) => c.compare_and_swap(a, n).heap_ptr() as usize,
                            (C::U(c), H::U(a), H::U(n)) => c.compare_and_swap(a, n).heap_ptr() as usize,
                            (C::T(c), H::T(a), H::T(n)) => c.compare_and_swap(a, n).heap_ptr() as usize,
                            _ => crate::payload::harness_bug("Cas with mismatching types"),
                        };
                        prev_heap
                    });
                    if let Some(prev) = r {
                        self.last.verdict = Some(prev == cur_heap);
                    }
                }
            }
            "IntoInner" => {
                if let Some(c) = self.cells[ci].take() {
                    let n = self.call(move || match c {
                        C::E(c) => H::E(c.into_inner()),
                        C::U(c) => H::U(c.into_inner()),
                        C::T(c) => H::T(c.into_inner()),
                    });
                    if let Some(n) = n {
                        self.slots[d] = Some(n);
                    }
                }
            }
            "CellDrop" => {
                if let Some(c) = self.cells[ci].take() {
                    self.call(move || drop(c));
                }
            }
            "IsUnique" => {
                let r = match &self.slots[s] {
                    Some(h) => {
                        let hp: *const H = h;
                        self.call(|| unsafe {
                            match &*hp {
                                H::E(a) => a.is_unique(),
                                H::U(a) => a.is_unique(),
                                H::T(t) => t.with_arc(|a| a.is_unique()),
                                _ => crate::payload::harness_bug("IsUnique on a guard"),
                            }
                        })
                    }
                    None => None,
                };
                self.last.verdict = r;
            }
            "GetMut" => {
                let v = op.v;
                let r = match self.slots[s].as_mut() {
                    Some(H::E(a)) => {
                        let ap: *mut Arc<E> = a;
                        self.call(move || unsafe {
                            match Arc::get_mut(&mut *ap) {
                                Some(r) => {
                                    r.set_val(v);
                                    true
                                }
                                None => false,
                            }
                        })
                    }
                    _ => {
                        bad!(self, "[harness] GetMut on wrong kind");
                        None
                    }
                };
                self.last.verdict = r;
            }
            "ArcWrite" => {
                let val = E::mk(op.v);
                let id = val.see().id;
                let b = self.slots[s].as_ref().map(|h| self.block_of(observe(h).heap)).unwrap_or(0);
                let r = match self.slots[s].as_mut() {
                    Some(H::U(a)) => {
                        let ap: *mut Arc<MU> = a;
                        self.call(move || unsafe {
                            (*ap).write(val);
                        })
                    }
                    _ => {
                        bad!(self, "[harness] ArcWrite on wrong kind");
                        None
                    }
                };
                self.last.verdict = Some(r.is_some());
                if r.is_some() && b > 0 {
                    self.blocks[b - 1].written.push(id);
                }
            }
            "MakeMut" => {
                let v = op.v;
                let before = self.slots[s].as_ref().map(|h| observe(h).heap).unwrap_or(0);
                let r = match self.slots[s].as_mut() {
                    Some(H::E(a)) => {
                        let ap: *mut Arc<E> = a;
                        self.call(move || unsafe {
                            Arc::make_mut(&mut *ap).set_val(v);
                            ((*ap).heap_ptr() as usize, (*ap).see().id)
                        })
                    }
                    _ => {
                        bad!(self, "[harness] MakeMut on wrong kind");
                        None
                    }
                };
                if let Some((heap, pid)) = r {
                    self.last.verdict = Some(heap == before);
                    if heap != before {
                        self.blocks.push(BlockInfo { addr: heap, how: "init", pid, written: vec![] });
                    }
                }
            }
            "TryUnwrap" => {
                if let Some(h) = self.slots[s].take() {
                    let r = self.call(move || match h {
                        H::E(a) => match Arc::try_unwrap(a) {
                            Ok(v) => {
                                drop(v);
                                None
                            }
                            Err(a) => Some(H::E(a)),
                        },
                        _ => crate::payload::harness_bug("TryUnwrap on wrong kind"),
                    });
                    if let Some(n) = r {
                        self.last.verdict = Some(n.is_none());
                        self.slots[s] = n;
                    }
                }
            }
            other => bad!(self, "[harness] unknown op {}", other),
        }
    }

    fn tally(&mut self) -> (std::collections::HashMap<u32, u32>, std::collections::HashMap<usize, u32>) {
        self.events.extend(ev::drain());
        let mut drops: std::collections::HashMap<u32, u32> = Default::default();
        let mut frees: std::collections::HashMap<usize, u32> = Default::default();
        for e in &self.events {
            match e {
                Ev::Drop { id, .. } => *drops.entry(*id).or_default() += 1,
                Ev::Dealloc { addr, status, size, align, rsize, ralign, .. } => {
                    *frees.entry(*addr).or_default() += 1;
                    if *status != 0 {
                        let m = format!("[layout] block {:#x} requested (size {}, align {}) released (size {}, align {}) status {}", addr, rsize, ralign, size, align, status);
                        if !self.errors.contains(&m) {
                            self.errors.push(m);
                        }
                    }
                }
                Ev::BadDrop { addr, magic } => {
                    let m = format!("[baddrop] a destructor ran on something that is not a live object of its type at {:#x} (magic {:#x})", addr, magic);
                    if !self.errors.contains(&m) {
                        self.errors.push(m);
                    }
                }
                _ => {}
            }
        }
        (drops, frees)
    }

    fn check(&mut self, x: &Value) {
        let (drops, frees) = self.tally();
        let (xb, xh, xr, xc) = (&x[0], &x[1], &x[2], &x[3]);
        for s in 1..self.slots.len() {
            let ek = xh[s - 1][0].as_str().unwrap_or("?");
            let eb = xh[s - 1][1].as_u64().unwrap_or(0) as usize;
            match &self.slots[s] {
                None => {
                    if ek != "none" {
                        bad!(self, "[kind] slot {}: expected a {} handle, implementation has none", s, ek);
                    }
                }
                Some(h) => {
                    let o = observe(h);
                    if o.kind != ek {
                        bad!(self, "[kind] slot {}: expected kind {}, got {}", s, ek, o.kind);
                    }
                    let b = self.block_of(o.heap);
                    if b != eb || b == 0 {
                        bad!(self, "[block] slot {} ({}): expected block {}, handle points at block {}", s, o.kind, eb, b);
                        continue;
                    }
                    let lo = xb[b - 1][2].as_u64().unwrap_or(0) as usize;
                    let hi = xb[b - 1][3].as_u64().unwrap_or(0) as usize;
                    if o.count < lo || o.count > hi {
                        bad!(self, "[count] block {}: count through slot {} ({}) is {}, specification says {}..{} (handles + cells + guards)", b, s, o.kind, o.count, lo, hi);
                    }
                    let xval = xb[b - 1][4].as_u64().unwrap_or(0) as u32;
                    if let Some(seen) = unsafe { value(h, xval != 0) } {
                        if !seen.ok || seen.val != xval {
                            bad!(self, "[value] block {}: value through slot {} ({}) is {} (intact: {}), specification says {}", b, s, o.kind, seen.val, seen.ok, xval);
                        }
                        let info = &self.blocks[b - 1];
                        let want = if info.how == "uninit" { *info.written.last().unwrap_or(&0) } else { info.pid };
                        if seen.ok && seen.id != want {
                            bad!(self, "[value] block {}: the object seen through slot {} ({}) is not the one the block was given", b, s, o.kind);
                        }
                    }
                }
            }
        }
        for c in 1..self.cells.len() {
            let eb = xc[c - 1].as_u64().unwrap_or(0) as usize;
            match &self.cells[c] {
                None => {
                    if eb != 0 {
                        bad!(self, "[kind] cell {}: expected to hold block {}, implementation has no cell", c, eb);
                    }
                }
                Some(cell) => {
                    let b = self.block_of(cell_heap(cell));
                    if b != eb {
                        bad!(self, "[block] cell {}: expected to hold block {}, holds block {}", c, eb, b);
                    }
                }
            }
        }
        let nb = xb.as_array().map(|a| a.len()).unwrap_or(0);
        if (0..nb).filter(|i| xb[*i][0] != "none").count() != self.blocks.len() {
            bad!(self, "[stray] specification and implementation disagree on the number of blocks");
        }
        for i in 0..nb.min(self.blocks.len()) {
            let st = xb[i][0].as_str().unwrap_or("?");
            let xdr = xb[i][5].as_u64().unwrap_or(0) as u32;
            let xfr = xb[i][6].as_u64().unwrap_or(0) as u32;
            let info = &self.blocks[i];
            let dr = if info.pid != 0 { *drops.get(&info.pid).unwrap_or(&0) } else { 0 };
            if dr != xdr {
                self.errors.push(format!("[drops] block {} ({}, {}): object destroyed {} time(s), specification says {}", i + 1, info.how, st, dr, xdr));
            }
            for id in &info.written {
                if *drops.get(id).unwrap_or(&0) != 0 {
                    self.errors.push(format!("[drops] block {} (uninit): an object written into it was destroyed although the block never was assumed initialised", i + 1));
                }
            }
            let f = *frees.get(&info.addr).unwrap_or(&0);
            if f != xfr {
                self.errors.push(format!("[frees] block {} ({}, {}): memory released {} time(s), specification says {}", i + 1, info.how, st, f, xfr));
            }
        }
        let xop = xr[0].as_str().unwrap_or("-");
        let xver = xr[2].as_str().unwrap_or("-");
        let xpan = xr[3].as_u64().unwrap_or(0) == 1;
        if xver != "-" && self.last.verdict != Some(xver == "yes") {
            bad!(self, "[verdict] {}: verdict {:?}, specification says {}", xop, self.last.verdict, xver);
        }
        if self.last.panicked != xpan {
            bad!(self, "[panicked] {}: panicked = {}, specification says {}", xop, self.last.panicked, xpan);
        }
    }

    fn drain(&mut self) {
        for s in 0..self.slots.len() {
            if let Some(h) = self.slots[s].take() {
                if self.call(move || drop(h)).is_none() {
                    bad!(self, "[drain] releasing slot {} panicked", s);
                }
            }
        }
        for c in 0..self.cells.len() {
            if let Some(cell) = self.cells[c].take() {
                if self.call(move || drop(cell)).is_none() {
                    bad!(self, "[drain] dropping cell {} panicked", c);
                }
            }
        }
        self.panics.clear();
        let (drops, _) = self.tally();
        let id1 = NEXT_ID.load(Ordering::SeqCst);
        for id in self.id0..id1 {
            if *drops.get(&id).unwrap_or(&0) > 1 {
                bad!(self, "[drain] object {} destroyed more than once", id - self.id0 + 1);
            }
        }
        for b in &self.blocks {
            let n = if b.pid != 0 { *drops.get(&b.pid).unwrap_or(&0) } else { 1 };
            if n != 1 {
                bad!(self, "[drain] the object of a {} block was destroyed {} time(s) by the time every handle and cell is gone", b.how, n);
            }
        }
        if alloc::overruns() > 0 {
            bad!(self, "[overrun] {} block(s) were written past their end (red zone damaged)", alloc::overruns());
        }
        for r in alloc::table() {
            if r.live || r.frees != 1 {
                bad!(self, "[drain] allocation of {} bytes (align {}) released {} time(s) by the time every handle and cell is gone", r.size, r.align, r.frees);
            }
        }
    }
}

pub fn replay_line(nslots: usize, h: &Value, x: &Value) -> Vec<String> {
    warm_up();
    alloc::reset();
    ev::LOG.clear();
    let ncells = x[3].as_array().map(|a| a.len()).unwrap_or(1);
    let mut ctx = Ctx {
        slots: (0..=nslots).map(|_| None).collect(),
        cells: (0..=ncells).map(|_| None).collect(),
        blocks: vec![],
        events: vec![],
        last: Res::default(),
        errors: vec![],
        id0: NEXT_ID.load(Ordering::SeqCst),
        panics: vec![],
    };
    let ops: Vec<Op> = h.as_array().map(|a| a.iter().map(parse_op).collect()).unwrap_or_default();
    for op in &ops {
        ctx.last = Res::default();
        ctx.step(op);
    }
    ctx.check(x);
    ctx.drain();
    let errs = std::mem::take(&mut ctx.errors);
    drop(ctx);
    alloc::reset();
    errs
}
