//! Recording, poisoning, quarantining global allocator.
//!
//! While tracking is on, every allocation is registered with its requested layout and filled
//! with POISON_FRESH. Deallocation of a registered block is checked against the request,
//! the block is filled with POISON_FREED and kept (never handed out again until `reset`),
//! so a dangling read yields poison, a destructor run on freed or never-written memory sees a
//! poison identity, and a second free is an event, not a crash.

use crate::ev::{Ev, LOG};
use std::alloc::{GlobalAlloc, Layout, System};
use std::cell::UnsafeCell;
use std::sync::atomic::{AtomicBool, AtomicIsize, AtomicUsize, Ordering};

pub const POISON_FRESH: u8 = 0xA5;
pub const POISON_FREED: u8 = 0xDE;
/// every tracked block is followed by a red zone filled with this byte; it is checked when the block
/// is released and when the table is read, so a write past the end of a block is an event
pub const REDZONE: usize = 64;
pub const RED: u8 = 0xC7;
/// number of red-zone violations seen since the last reset
pub static OVERRUNS: AtomicUsize = AtomicUsize::new(0);

fn real_layout(size: usize, align: usize) -> Layout {
    unsafe { Layout::from_size_align_unchecked(size + REDZONE, align) }
}
unsafe fn red_ok(addr: usize, size: usize) -> bool {
    let p = (addr + size) as *const u8;
    (0..REDZONE).all(|i| p.add(i).read_volatile() == RED)
}

#[derive(Clone, Copy, Debug)]
pub struct Rec {
    pub addr: usize,
    pub size: usize,
    pub align: usize,
    pub live: bool,
    pub frees: u32,
    /// guard mode: the private mapping the block lives in (0: a block from the system allocator)
    pub map: usize,
    pub maplen: usize,
}

const TCAP: usize = 1 << 14;

pub struct Table {
    n: AtomicUsize,
    recs: UnsafeCell<[Rec; TCAP]>,
}
unsafe impl Sync for Table {}

static TABLE: Table = Table {
    n: AtomicUsize::new(0),
    recs: UnsafeCell::new([Rec { addr: 0, size: 0, align: 0, live: false, frees: 0, map: 0, maplen: 0 }; TCAP]),
};

pub static TRACKING: AtomicBool = AtomicBool::new(false);
/// guard mode: every tracked block gets a mapping of its own, ends right before an inaccessible page, and the whole
/// mapping becomes inaccessible when the block is released: any later access, and any access past the red zone,
/// ends the process with SIGSEGV instead of going unnoticed
pub static GUARD: AtomicBool = AtomicBool::new(false);
const PAGE: usize = 4096;
extern "C" {
    fn mmap(addr: *mut u8, len: usize, prot: i32, flags: i32, fd: i32, off: i64) -> *mut u8;
    fn munmap(addr: *mut u8, len: usize) -> i32;
    fn mprotect(addr: *mut u8, len: usize, prot: i32) -> i32;
}
unsafe fn guard_alloc(size: usize, align: usize) -> (*mut u8, usize, usize) {
    let need = size + REDZONE;
    let span = (need + align.max(16) + PAGE - 1) / PAGE * PAGE;
    // PROT_READ | PROT_WRITE = 3, MAP_PRIVATE | MAP_ANONYMOUS = 0x22
    let map = mmap(std::ptr::null_mut(), span + PAGE, 3, 0x22, -1, 0);
    if map as isize == -1 {
        return (std::ptr::null_mut(), 0, 0);
    }
    mprotect(map.add(span), PAGE, 0);
    let p = ((map as usize + span - need) / align) * align;
    (p as *mut u8, map as usize, span + PAGE)
}
/// > 0: the allocation that brings this to 0 fails (returns null)
pub static FAIL_AT: AtomicIsize = AtomicIsize::new(0);
/// refuse (return null for) tracked requests larger than this, so that an accidental huge
/// request is an event rather than an OOM kill
pub static MAX_REQ: AtomicUsize = AtomicUsize::new(1 << 26);

pub struct TrackAlloc;

unsafe impl GlobalAlloc for TrackAlloc {
    unsafe fn alloc(&self, layout: Layout) -> *mut u8 {
        if !TRACKING.load(Ordering::Relaxed) {
            return System.alloc(layout);
        }
        LOG.lock();
        let fa = FAIL_AT.load(Ordering::Relaxed);
        let mut fail = layout.size() > MAX_REQ.load(Ordering::Relaxed);
        if fa > 0 {
            FAIL_AT.store(fa - 1, Ordering::Relaxed);
            if fa == 1 {
                fail = true;
            }
        }
        if fail {
            LOG.push_locked(Ev::AllocFail { size: layout.size(), align: layout.align() });
            LOG.unlock();
            return std::ptr::null_mut();
        }
        let (p, map, maplen) = if GUARD.load(Ordering::Relaxed) {
            guard_alloc(layout.size(), layout.align())
        } else {
            (System.alloc(real_layout(layout.size(), layout.align())), 0, 0)
        };
        if !p.is_null() {
            std::ptr::write_bytes(p, POISON_FRESH, layout.size());
            std::ptr::write_bytes(p.add(layout.size()), RED, REDZONE);
            let n = TABLE.n.load(Ordering::Relaxed);
            if n < TCAP {
                (*TABLE.recs.get())[n] =
                    Rec { addr: p as usize, size: layout.size(), align: layout.align(), live: true, frees: 0, map, maplen };
                TABLE.n.store(n + 1, Ordering::Relaxed);
            } else {
                LOG.overflow.store(true, Ordering::Relaxed);
            }
            LOG.push_locked(Ev::Alloc { addr: p as usize, size: layout.size(), align: layout.align() });
        }
        LOG.unlock();
        p
    }

    unsafe fn dealloc(&self, ptr: *mut u8, layout: Layout) {
        let n = TABLE.n.load(Ordering::Relaxed);
        if n == 0 {
            return System.dealloc(ptr, layout);
        }
        LOG.lock();
        let n = TABLE.n.load(Ordering::Relaxed);
        let recs = &mut *TABLE.recs.get();
        let mut found = None;
        // newest first: addresses are never reused while registered, but be safe
        for i in (0..n).rev() {
            if recs[i].addr == ptr as usize {
                found = Some(i);
                break;
            }
        }
        match found {
            None => {
                LOG.unlock();
                System.dealloc(ptr, layout);
            }
            Some(i) => {
                let r = recs[i];
                let status = if !r.live {
                    2
                } else if r.size != layout.size() || r.align != layout.align() {
                    1
                } else {
                    0
                };
                recs[i].frees += 1;
                if r.live && !red_ok(r.addr, r.size) {
                    OVERRUNS.fetch_add(1, Ordering::Relaxed);
                }
                if r.live {
                    recs[i].live = false;
                    if r.map != 0 {
                        mprotect(r.map as *mut u8, r.maplen, 0);
                    } else {
                        std::ptr::write_bytes(ptr, POISON_FREED, r.size);
                    }
                }
                LOG.push_locked(Ev::Dealloc {
                    addr: ptr as usize,
                    size: layout.size(),
                    align: layout.align(),
                    status,
                    rsize: r.size,
                    ralign: r.align,
                    tid: crate::ev::tid(),
                });
                LOG.unlock();
                // quarantined: really freed in reset()
            }
        }
    }
}

/// red-zone violations: blocks (live or quarantined) whose red zone is no longer intact, plus those
/// noticed at release
pub fn overruns() -> usize {
    LOG.lock();
    let n = TABLE.n.load(Ordering::Relaxed);
    let recs = unsafe { &*TABLE.recs.get() };
    let mut k = 0;
    for r in recs.iter().take(n) {
        if r.live && !unsafe { red_ok(r.addr, r.size) } {
            k += 1;
        }
    }
    LOG.unlock();
    k + OVERRUNS.load(Ordering::Relaxed)
}

/// snapshot of the registered blocks
pub fn table() -> Vec<Rec> {
    let was = TRACKING.swap(false, Ordering::SeqCst);
    let mut v = Vec::new();
    LOG.lock();
    let n = TABLE.n.load(Ordering::Relaxed);
    LOG.unlock();
    v.reserve(n);
    LOG.lock();
    let recs = unsafe { &*TABLE.recs.get() };
    for r in recs.iter().take(n) {
        v.push(*r);
    }
    LOG.unlock();
    TRACKING.store(was, Ordering::SeqCst);
    v
}

pub fn lookup(addr: usize) -> Option<Rec> {
    LOG.lock();
    let n = TABLE.n.load(Ordering::Relaxed);
    let recs = unsafe { &*TABLE.recs.get() };
    let mut out = None;
    for r in recs.iter().take(n).rev() {
        if r.addr == addr {
            out = Some(*r);
            break;
        }
    }
    LOG.unlock();
    out
}

/// really free everything registered (quarantined and leaked alike) and forget it.
/// Only call when nothing refers to those blocks any more.
pub fn reset() {
    TRACKING.store(false, Ordering::SeqCst);
    LOG.lock();
    let n = TABLE.n.load(Ordering::Relaxed);
    let recs = unsafe { &*TABLE.recs.get() };
    for r in recs.iter().take(n) {
        unsafe {
            if r.map != 0 {
                munmap(r.map as *mut u8, r.maplen);
            } else {
                System.dealloc(r.addr as *mut u8, real_layout(r.size, r.align));
            }
        }
    }
    TABLE.n.store(0, Ordering::Relaxed);
    LOG.unlock();
    FAIL_AT.store(0, Ordering::SeqCst);
    OVERRUNS.store(0, Ordering::SeqCst);
    GUARD.store(false, Ordering::SeqCst);
}

pub fn track(on: bool) {
    TRACKING.store(on, Ordering::SeqCst);
}
