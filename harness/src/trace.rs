//! Tracer installed into triomphe's verification hook: logs every count operation.

use crate::ev::{Ev, LOG};
use std::cell::Cell;
use std::sync::atomic::{AtomicBool, Ordering as O};
use triomphe::verif_hook as hook;

thread_local! {
    pub static TID: Cell<u32> = const { Cell::new(0) };
}
/// serialise each count operation together with its log entry (threaded runs): the log
/// order is then the modification order of every count
pub static SERIALISE: AtomicBool = AtomicBool::new(false);

fn op_code(op: hook::Op) -> u8 {
    match op {
        hook::Op::Load => 0,
        hook::Op::Store => 1,
        hook::Op::FetchAdd => 2,
        hook::Op::FetchSub => 3,
        hook::Op::Swap => 4,
        hook::Op::CompareExchange => 5,
        hook::Op::Fence => 6,
    }
}
pub fn ord_code(o: hook::Ordering) -> u8 {
    match o {
        hook::Ordering::Relaxed => 0,
        hook::Ordering::Release => 1,
        hook::Ordering::Acquire => 2,
        hook::Ordering::AcqRel => 3,
        _ => 4,
    }
}

fn pre(_e: &hook::Event) {
    if SERIALISE.load(O::Relaxed) {
        LOG.lock();
    }
}
fn post(e: &hook::Event, seen: usize) {
    let ev = Ev::Atomic {
        cell: e.cell as usize,
        op: op_code(e.op),
        operand: e.operand,
        order: ord_code(e.order),
        seen,
        tid: TID.with(|t| t.get()),
    };
    if SERIALISE.load(O::Relaxed) {
        LOG.push_locked(ev);
        LOG.unlock();
    } else {
        LOG.push(ev);
    }
}

static TRACER: hook::Tracer = hook::Tracer { pre, post };

pub fn install() {
    hook::set_tracer(Some(&TRACER));
}
pub fn uninstall() {
    hook::set_tracer(None);
}
