//! Tracer installed into triomphe's verification hook: logs every count operation.

use crate::ev::{Ev, LOG};
use std::sync::atomic::{AtomicBool, Ordering as O};
use triomphe::verif_hook as hook;

pub use crate::ev::TID;
/// serialise each count operation together with its log entry (threaded runs): the log
/// order is then the modification order of every count
pub static SERIALISE: AtomicBool = AtomicBool::new(false);

fn op_code(op: hook::Op) -> u8 {
    match op {
        hook::Op::Load => 0,
        hook::Op::Store => 1,
        hook::Op::FetchAdd => 2,
        hook::Op::FetchSub => 3,
        hook::Op::Swap => 4,
        hook::Op::CompareExchange => 5,
        hook::Op::Fence => 6,
    }
}
pub fn ord_code(o: hook::Ordering) -> u8 {
    match o {
        hook::Ordering::Relaxed => 0,
        hook::Ordering::Release => 1,
        hook::Ordering::Acquire => 2,
        hook::Ordering::AcqRel => 3,
        _ => 4,
    }
}

/// in threaded runs: give the other threads a chance right before every k-th count operation, so that
/// windows between two operations of one call get visited
pub static YIELD_EVERY: std::sync::atomic::AtomicUsize = std::sync::atomic::AtomicUsize::new(0);
static OPS_SEEN: std::sync::atomic::AtomicUsize = std::sync::atomic::AtomicUsize::new(0);

// ---- seeded cooperative scheduler (threaded runs): exactly one participating thread runs at a time;
// at every scheduling point (each count operation, each payload access) the next thread to run is
// drawn from the live ones with a seeded generator. Interleavings are therefore uniform at the grain
// of single count operations, and reproducible from the seed.
pub static SCHED_ON: AtomicBool = AtomicBool::new(false);
static TURN: std::sync::atomic::AtomicU32 = std::sync::atomic::AtomicU32::new(0);
static ALIVE: std::sync::atomic::AtomicU32 = std::sync::atomic::AtomicU32::new(0);
static RNG: std::sync::atomic::AtomicU64 = std::sync::atomic::AtomicU64::new(1);

fn draw() -> u64 {
    let mut x = RNG.load(O::Relaxed);
    x ^= x << 13;
    x ^= x >> 7;
    x ^= x << 17;
    RNG.store(x, O::Relaxed);
    x
}
fn pick_next() {
    let alive = ALIVE.load(O::SeqCst);
    if alive == 0 {
        TURN.store(0, O::SeqCst);
        return;
    }
    let n = alive.count_ones() as u64;
    let mut k = draw() % n;
    for t in 0..32u32 {
        if alive & (1 << t) != 0 {
            if k == 0 {
                TURN.store(t, O::SeqCst);
                return;
            }
            k -= 1;
        }
    }
}
pub fn sched_start(seed: u64, tids: &[u32]) {
    RNG.store(seed | 1, O::SeqCst);
    let mut m = 0u32;
    for t in tids {
        m |= 1 << t;
    }
    ALIVE.store(m, O::SeqCst);
    SCHED_ON.store(true, O::SeqCst);
    pick_next();
}
/// called by a participating thread: hand the turn to a drawn live thread and wait for one's own
pub fn sched_point() {
    if !SCHED_ON.load(O::Relaxed) {
        return;
    }
    let me = TID.with(|t| t.get());
    if ALIVE.load(O::SeqCst) & (1 << me) == 0 {
        return;
    }
    if TURN.load(O::SeqCst) == me {
        pick_next();
    }
    let mut spins = 0u32;
    while TURN.load(O::SeqCst) != me {
        spins += 1;
        if spins % 64 == 0 {
            std::thread::yield_now();
        } else {
            std::hint::spin_loop();
        }
    }
}
/// a participating thread waits for its first turn
pub fn sched_enter() {
    let me = TID.with(|t| t.get());
    while SCHED_ON.load(O::SeqCst) && TURN.load(O::SeqCst) != me {
        std::thread::yield_now();
    }
}
/// a participating thread is done: leave and pass the turn on
pub fn sched_leave() {
    let me = TID.with(|t| t.get());
    ALIVE.fetch_and(!(1 << me), O::SeqCst);
    if TURN.load(O::SeqCst) == me {
        pick_next();
    }
}
pub fn sched_stop() {
    SCHED_ON.store(false, O::SeqCst);
}

// ---- deterministic preemption injection: run an "adversary" (acting as another thread) right before
// the k-th count operation of the call under test
thread_local! {
    pub static INJECT: std::cell::RefCell<Option<Box<dyn FnMut(usize)>>> = const { std::cell::RefCell::new(None) };
    static IN_INJECT: std::cell::Cell<bool> = const { std::cell::Cell::new(false) };
    static EVENT_NO: std::cell::Cell<usize> = const { std::cell::Cell::new(0) };
}
pub fn inject_reset() {
    EVENT_NO.with(|c| c.set(0));
}
fn maybe_inject() {
    if IN_INJECT.with(|c| c.get()) {
        return;
    }
    let has = INJECT.with(|i| i.borrow().is_some());
    if !has {
        return;
    }
    let k = EVENT_NO.with(|c| {
        c.set(c.get() + 1);
        c.get()
    });
    IN_INJECT.with(|c| c.set(true));
    // take the closure out while it runs (it performs library calls that come back here)
    let f = INJECT.with(|i| i.borrow_mut().take());
    if let Some(mut f) = f {
        f(k);
        INJECT.with(|i| *i.borrow_mut() = Some(f));
    }
    IN_INJECT.with(|c| c.set(false));
}

thread_local! {
    /// the injected closure runs right AFTER the victim's k-th count operation instead of right before it
    pub static INJECT_AFTER: std::cell::Cell<bool> = const { std::cell::Cell::new(false) };
}

fn pre(_e: &hook::Event) {
    if !INJECT_AFTER.with(|c| c.get()) {
        maybe_inject();
    }
    if SERIALISE.load(O::Relaxed) {
        sched_point();
        let k = YIELD_EVERY.load(O::Relaxed);
        if k != 0 && OPS_SEEN.fetch_add(1, O::Relaxed) % k == 0 {
            std::thread::yield_now();
        }
        LOG.lock();
    }
}
/// number of modifying operations (anything but a load or a fence) performed on reference counts so far
pub static COUNT_WRITES: std::sync::atomic::AtomicUsize = std::sync::atomic::AtomicUsize::new(0);

fn post(e: &hook::Event, seen: usize) {
    if !matches!(e.op, hook::Op::Load | hook::Op::Fence) {
        COUNT_WRITES.fetch_add(1, O::Relaxed);
    }
    let ev = Ev::Atomic {
        cell: e.cell as usize,
        op: op_code(e.op),
        operand: e.operand,
        order: ord_code(e.order),
        seen,
        tid: TID.with(|t| t.get()),
    };
    if SERIALISE.load(O::Relaxed) {
        LOG.push_locked(ev);
        LOG.unlock();
    } else {
        LOG.push(ev);
    }
    if INJECT_AFTER.with(|c| c.get()) {
        maybe_inject();
    }
}

static TRACER: hook::Tracer = hook::Tracer { pre, post };

pub fn install() {
    hook::set_tracer(Some(&TRACER));
}
pub fn uninstall() {
    hook::set_tracer(None);
}
