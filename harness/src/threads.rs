//! Real concurrent runs: 2-4 OS threads execute seeded random programs over handles of mixed kinds to
//! ONE shared value. Every count operation (through the tracer), payload access, destructor run,
//! deallocation and handle hand-over is logged under the tracer lock, so the log is a total order
//! consistent with the count's modification order. The log is written as NDJSON and judged by TLC
//! against `ArcMMTrace.tla`.

use crate::alloc;
use crate::ev::{self, Ev, LOG};
use crate::payload::{Pay, A, B, E};
use crate::trace::{sched_enter, sched_leave, sched_point, sched_start, sched_stop, SERIALISE, TID, YIELD_EVERY};
use serde_json::{json, Value};
use std::sync::atomic::Ordering;
use std::sync::{Arc as StdArc, Barrier};
use triomphe::{Arc, ArcUnion, OffsetArc};

type FatHs = Arc<triomphe::HeaderSlice<triomphe::HeaderWithLength<A>, [u32]>>;
enum H {
    Arc(Arc<A>),
    Off(OffsetArc<A>),
    Uni(ArcUnion<A, B>),
    // header-slice blocks (a separate scenario: all handles of a run refer to one block)
    Thin(triomphe::ThinArc<A, u32>),
    Fat(FatHs),
}

struct Rng(u64);
impl Rng {
    fn next(&mut self) -> u64 {
        self.0 ^= self.0 << 13;
        self.0 ^= self.0 >> 7;
        self.0 ^= self.0 << 17;
        self.0
    }
    fn below(&mut self, n: usize) -> usize {
        (self.next() % n as u64) as usize
    }
}

fn mark(code: u32, a: usize) {
    LOG.push(Ev::Mark { tid: TID.with(|t| t.get()), code, a });
}
// mark codes
const START: u32 = 10;
const END: u32 = 11;
const HINC: u32 = 12;
const HDEC: u32 = 13;
const MOVEOUT: u32 = 14;
const SYNC: u32 = 15;

/// payload read / write performed and logged as one step
fn read_payload(p: &A) -> u32 {
    sched_point();
    LOG.lock();
    let s = p.see();
    LOG.push_locked(Ev::Access { addr: p as *const A as usize, kind: 0, tid: TID.with(|t| t.get()) });
    LOG.unlock();
    s.val
}
fn write_payload(p: &mut A, v: u32) {
    sched_point();
    LOG.lock();
    p.set_val(v);
    LOG.push_locked(Ev::Access { addr: p as *const A as usize, kind: 1, tid: TID.with(|t| t.get()) });
    LOG.unlock();
}

fn heap_of(h: &H) -> usize {
    match h {
        H::Arc(a) => a.heap_ptr() as usize,
        H::Off(o) => (&**o as *const A as usize) - 8,
        H::Uni(u) => (u.as_first().map(|b| b.get() as *const A as usize).unwrap_or(8)) - 8,
        H::Thin(t) => t.heap_ptr() as usize,
        H::Fat(f) => f.heap_ptr() as usize,
    }
}

const OPS: [&str; 9] = ["clone", "read", "drop", "get_mut", "try_unwrap", "make_mut", "unwrap_or_clone", "count", "convert"];

#[derive(Clone, Copy)]
enum Lender {
    Borrow(triomphe::ArcBorrow<'static, A>),
    Offset(&'static OffsetArc<A>),
    Thin(&'static triomphe::ThinArc<A, u32>),
}
unsafe impl Send for Lender {}
impl Lender {
    fn take(&self, how: usize) -> H {
        match self {
            Lender::Borrow(b) => {
                if how % 2 == 0 {
                    H::Arc(b.clone_arc())
                } else {
                    H::Arc(b.with_arc(|a| a.clone()))
                }
            }
            Lender::Thin(t) => {
                if how % 2 == 0 {
                    H::Thin((*t).clone())
                } else {
                    H::Fat(t.with_arc(|a| a.clone()))
                }
            }
            Lender::Offset(o) => match how % 3 {
                0 => H::Off((*o).clone()),
                1 => H::Arc(o.clone_arc()),
                _ => H::Arc(o.with_arc(|a| a.clone())),
            },
        }
    }
}

fn worker(tid: u32, mut hs: Vec<H>, seed: u64, nops: usize, shared: usize, yields: bool, lender: Option<Lender>, menu: &'static [&'static str]) {
    TID.with(|t| t.set(tid));
    // leave the scheduler even if this thread unwinds, or the others would wait for it for ever
    struct Leave;
    impl Drop for Leave {
        fn drop(&mut self) {
            sched_leave();
        }
    }
    let _leave = Leave;
    sched_enter();
    let mut rng = Rng(seed.wrapping_mul(0x9E3779B97F4A7C15) ^ (tid as u64) << 32 | 1);
    let mut private: Vec<H> = vec![];
    for step in 0..(nops + 64) {
        if hs.is_empty() {
            let lender = match lender {
                Some(l) if step < nops => l,
                _ => break,
            };
            // nothing of its own left: take a new handle from the borrow of the main thread's handle
            // (several threads may do this at once while the count is 1)
            mark(START, 0);
            let n = lender.take(rng.below(6));
            mark(HINC, 0);
            hs.push(n);
            mark(END, 0);
            continue;
        }
        // after the budget: release what is left
        let op = if step >= nops { "drop" } else { menu[rng.below(menu.len())] };
        if yields && rng.below(3) == 0 {
            std::thread::yield_now();
        }
        let i = rng.below(hs.len());
        mark(START, OPS.iter().position(|o| *o == op).unwrap_or(0));
        match op {
            "clone" => {
                let n = match &hs[i] {
                    H::Arc(a) => {
                        if rng.below(2) == 0 {
                            H::Arc(a.clone())
                        } else {
                            H::Arc(a.borrow_arc().clone_arc())
                        }
                    }
                    H::Off(o) => {
                        if rng.below(2) == 0 {
                            H::Off(o.clone())
                        } else {
                            H::Arc(o.clone_arc())
                        }
                    }
                    H::Uni(u) => H::Uni(u.clone()),
                    H::Thin(t) => {
                        if rng.below(2) == 0 {
                            H::Thin(t.clone())
                        } else {
                            H::Fat(t.with_arc(|a| a.clone()))
                        }
                    }
                    H::Fat(f) => H::Fat(f.clone()),
                };
                mark(HINC, 0);
                if hs.len() < 6 {
                    hs.push(n);
                } else {
                    mark(HDEC, 0);
                    drop(n);
                }
            }
            "read" => {
                let _ = match &hs[i] {
                    H::Arc(a) => read_payload(a),
                    H::Off(o) => read_payload(o),
                    H::Uni(u) => u.as_first().map(|b| read_payload(b.get())).unwrap_or(0),
                    H::Thin(t) => read_payload(&t.header.header),
                    H::Fat(f) => read_payload(&f.header.header),
                };
            }
            "drop" => {
                let h = hs.swap_remove(i);
                mark(HDEC, 0);
                drop(h);
            }
            "get_mut" => {
                if let H::Fat(f) = &mut hs[i] {
                    if let Some(r) = Arc::get_mut(f) {
                        write_payload(&mut r.header.header, step as u32);
                    }
                } else if let H::Thin(t) = &mut hs[i] {
                    t.with_arc_mut(|a| {
                        if let Some(r) = Arc::get_mut(a) {
                            write_payload(r.header_mut(), step as u32);
                        }
                    });
                } else if let H::Arc(a) = &mut hs[i] {
                    match rng.below(3) {
                        0 => {
                            if let Some(r) = Arc::get_mut(a) {
                                write_payload(r, step as u32);
                            }
                        }
                        1 => {
                            if let Some(u) = Arc::get_unique(a) {
                                write_payload(&mut **u, step as u32);
                            }
                        }
                        _ => {
                            let _ = a.is_unique();
                        }
                    }
                }
            }
            "try_unwrap" => {
                if matches!(hs[i], H::Arc(_)) {
                    if let H::Arc(a) = hs.swap_remove(i) {
                        mark(HDEC, 0);
                        match if rng.below(2) == 0 { Arc::try_unwrap(a) } else { Arc::try_unique(a).map(triomphe::UniqueArc::into_inner) } {
                            Ok(v) => {
                                mark(MOVEOUT, 0);
                                std::mem::forget(v);
                            }
                            Err(a) => {
                                mark(HINC, 0);
                                hs.push(H::Arc(a));
                            }
                        }
                    }
                }
            }
            "make_mut" => {
                if matches!(hs[i], H::Arc(_) | H::Off(_)) {
                    let mut h = hs.swap_remove(i);
                    mark(HDEC, 0);
                    match &mut h {
                        H::Arc(a) => write_payload(Arc::make_mut(a), step as u32),
                        H::Off(o) => write_payload(o.make_mut(), step as u32),
                        _ => {}
                    }
                    if heap_of(&h) == shared {
                        mark(HINC, 0);
                        hs.push(h);
                    } else {
                        private.push(h); // now on its own copy: no longer part of the shared history
                    }
                }
            }
            "unwrap_or_clone" => {
                if matches!(hs[i], H::Arc(_)) {
                    if let H::Arc(a) = hs.swap_remove(i) {
                        let id = a.see().id;
                        mark(HDEC, 0);
                        let v = Arc::unwrap_or_clone(a);
                        if v.see().id == id {
                            mark(MOVEOUT, 0);
                        }
                        std::mem::forget(v);
                    }
                }
            }
            "count" => {
                let _ = match &hs[i] {
                    H::Arc(a) => Arc::strong_count(a),
                    H::Off(o) => OffsetArc::strong_count(o),
                    H::Uni(u) => ArcUnion::strong_count(u),
                    H::Thin(t) => triomphe::ThinArc::strong_count(t),
                    H::Fat(f) => Arc::strong_count(f),
                };
            }
            _ => {
                // count-neutral conversions between kinds
                let h = hs.swap_remove(i);
                let n = match h {
                    H::Arc(a) => match rng.below(3) {
                        0 => H::Off(Arc::into_raw_offset(a)),
                        1 => H::Uni(ArcUnion::from_first(a)),
                        _ => unsafe { H::Arc(Arc::from_raw(Arc::into_raw(a))) },
                    },
                    H::Off(o) => H::Arc(Arc::from_raw_offset(o)),
                    H::Uni(u) => H::Uni(u),
                    H::Thin(t) => match rng.below(2) {
                        0 => H::Fat(Arc::from_thin(t)),
                        _ => unsafe { H::Thin(triomphe::ThinArc::from_raw(t.into_raw())) },
                    },
                    H::Fat(f) => H::Thin(Arc::into_thin(f)),
                };
                hs.push(n);
            }
        }
        mark(END, 0);
    }
    // anything still held (only if the loop ended early)
    while let Some(h) = hs.pop() {
        mark(START, 2);
        mark(HDEC, 0);
        drop(h);
        mark(END, 0);
    }
    for h in private {
        std::mem::forget(h);
    }
}

/// the same runner over ThinArc / fat header-slice handles to one header-slice block
fn run_thin(seed: u64, nthreads: usize, nops: usize, mut rng: Rng) -> Vec<Value> {
    static THIN_MENU: [&str; 8] = ["clone", "clone", "read", "drop", "drop", "get_mut", "count", "convert"];
    let root: triomphe::ThinArc<A, u32> = triomphe::ThinArc::from_header_and_slice(A::mk(1), &[1, 2, 3]);
    let shared = root.heap_ptr() as usize;
    let pid = root.header.header.see().id;
    let with_lender = seed % 2 == 0;
    let from_one = with_lender && (seed / 8) % 2 == 0;
    let mut per: Vec<Vec<H>> = vec![];
    let mut init: Vec<usize> = vec![];
    for _ in 0..nthreads {
        let n = if from_one { 0 } else { 1 + rng.below(2) };
        let mut v = vec![];
        for _ in 0..n {
            v.push(if rng.below(2) == 0 { H::Thin(root.clone()) } else { H::Fat(Arc::from_thin(root.clone())) });
        }
        init.push(n);
        per.push(v);
    }
    let total: usize = init.iter().sum::<usize>() + if with_lender { 1 } else { 0 };
    let mut root_box: Option<Box<triomphe::ThinArc<A, u32>>> = None;
    if with_lender {
        root_box = Some(Box::new(root));
    } else {
        drop(root);
    }
    let lender: Option<Lender> = root_box.as_ref().map(|b| Lender::Thin(unsafe { &*(&**b as *const triomphe::ThinArc<A, u32>) }));
    ev::LOG.clear();
    SERIALISE.store(true, Ordering::SeqCst);
    let barrier = StdArc::new(Barrier::new(nthreads));
    let coop = seed % 3 != 0;
    YIELD_EVERY.store(if coop { 0 } else { [1usize, 2, 3][(seed % 3) as usize] }, Ordering::SeqCst);
    if coop {
        let tids: Vec<u32> = (1..=nthreads as u32).collect();
        sched_start(seed, &tids);
    }
    let mut joins = vec![];
    for (t, hs) in per.into_iter().enumerate() {
        let b = barrier.clone();
        let s = rng.next();
        struct SendIt(Vec<H>);
        unsafe impl Send for SendIt {}
        let pack = SendIt(hs);
        joins.push(std::thread::spawn(move || {
            let pack = pack;
            b.wait();
            worker(t as u32 + 1, pack.0, s, nops, shared, false, lender, &THIN_MENU);
        }));
    }
    let nworkers = joins.len();
    for j in joins {
        let _ = j.join();
    }
    sched_stop();
    TID.with(|t| t.set(5));
    for w in 1..=nworkers {
        LOG.push(Ev::Mark { tid: w as u32, code: SYNC, a: 5 });
    }
    if root_box.is_some() {
        mark(START, 2);
        mark(HDEC, 0);
        drop(root_box.take());
        mark(END, 0);
    }
    TID.with(|t| t.set(0));
    SERIALISE.store(false, Ordering::SeqCst);
    alloc::track(false);
    let mut init = init;
    init.resize(4, 0);
    init.push(if with_lender { 1 } else { 0 });
    let lines = convert(ev::drain(), shared, pid, init, total, nthreads, seed);
    if ev::LOG.overflow.load(Ordering::SeqCst) {
        eprintln!("event log overflow");
        std::process::exit(2);
    }
    lines
}

/// the recorded events as NDJSON records for ArcMMTrace
fn convert(evs: Vec<Ev>, shared: usize, pid: u32, init: Vec<usize>, total: usize, nthreads: usize, seed: u64) -> Vec<Value> {
    // five model threads: up to four workers, and the main thread (5) which may keep and lend one handle
    let mut init5 = init.clone();
    init5.resize(5, 0);
    let mut lines: Vec<Value> = vec![json!({"e": "init", "init": init5, "count": total, "nt": nthreads, "seed": seed})];
    let mut last_tid = 1u32;
    for e in evs {
        match e {
            Ev::Atomic { cell, op, operand, order, seen, tid } => {
                last_tid = tid;
                if cell != shared && op != 6 {
                    continue; // the count of a private copy made by make_mut
                }
                let o = ord_name(order);
                lines.push(match op {
                    0 => json!({"t": tid, "e": "load", "o": o, "seen": seen as u64 as i64}),
                    1 => json!({"t": tid, "e": "store", "d": operand as u64 as i64, "o": o}),
                    2 => json!({"t": tid, "e": "rmw", "d": 1, "o": o, "seen": seen as u64 as i64, "by": operand as u64 as i64}),
                    3 => json!({"t": tid, "e": "rmw", "d": 0, "o": o, "seen": seen as u64 as i64, "by": operand as u64 as i64}),
                    4 | 5 => json!({"t": tid, "e": "cas", "new": operand as u64 as i64, "o": o, "seen": seen as u64 as i64}),
                    6 => json!({"t": tid, "e": "fence", "o": o}),
                    _ => json!({"t": tid, "e": "unsupported", "op": op}),
                });
            }
            Ev::Access { addr, kind, tid } => {
                last_tid = tid;
                if addr == shared + 8 {
                    lines.push(json!({"t": tid, "e": if kind == 0 { "read" } else { "write" }}));
                }
            }
            Ev::Clone { src, tid, .. } => {
                last_tid = tid;
                if src == pid {
                    lines.push(json!({"t": tid, "e": "read"}));
                }
            }
            Ev::Drop { id, tid, .. } => {
                last_tid = tid;
                if id == pid {
                    lines.push(json!({"t": tid, "e": "destroy"}));
                }
            }
            Ev::Dealloc { addr, tid, .. } => {
                if addr == shared {
                    lines.push(json!({"t": if tid != 0 { tid } else { last_tid }, "e": "free"}));
                }
            }
            Ev::Mark { tid, code, a } => {
                last_tid = tid;
                lines.push(match code {
                    START => json!({"t": tid, "e": "start", "op": OPS[a.min(OPS.len() - 1)]}),
                    END => json!({"t": tid, "e": "end"}),
                    HINC => json!({"t": tid, "e": "hinc"}),
                    HDEC => json!({"t": tid, "e": "hdec"}),
                    MOVEOUT => json!({"t": tid, "e": "moveout"}),
                    SYNC => json!({"t": tid, "e": "sync", "to": a}),
                    _ => continue,
                });
            }
            _ => {}
        }
    }
    lines
}

fn ord_name(o: u8) -> &'static str {
    ["rlx", "rel", "acq", "acqrel", "sc"][o.min(4) as usize]
}

/// `runs` recorded runs (seeds seed, seed+1, ...) concatenated into one NDJSON file; threads 1..=4,
/// unused ones start with no handle
pub fn run_many(seed: u64, runs: usize, nops: usize, out_path: &str) {
    use std::io::Write;
    let mut w = std::io::BufWriter::new(std::fs::File::create(out_path).unwrap());
    for r in 0..runs {
        let s = seed.wrapping_add(r as u64);
        let nthreads = 2 + (s % 3) as usize;
        for l in run(s, nthreads, nops) {
            writeln!(w, "{}", l).unwrap();
        }
        alloc::reset();
    }
}

pub fn run(seed: u64, nthreads: usize, nops: usize) -> Vec<Value> {
    let mut rng = Rng(seed | 1);
    alloc::track(true);
    if (seed / 32) % 3 == 2 {
        return run_thin(seed, nthreads, nops, rng);
    }
    let root = Arc::new(A::mk(1));
    let shared = root.heap_ptr() as usize;
    let pid = root.see().id;
    let mut per: Vec<Vec<H>> = vec![];
    let mut init: Vec<usize> = vec![];
    // scenario by seed: with or without a handle kept (and lent) by the main thread; which operations
    let with_lender = seed % 2 == 0;
    static FIGHT: [&str; 8] = ["try_unwrap", "try_unwrap", "get_mut", "get_mut", "drop", "clone", "read", "unwrap_or_clone"];
    static COW: [&str; 7] = ["make_mut", "make_mut", "read", "read", "clone", "drop", "get_mut"];
    static CLONES: [&str; 5] = ["clone", "clone", "drop", "read", "count"];
    let menu: &'static [&'static str] = match (seed / 2) % 4 {
        0 => &OPS,
        1 => &FIGHT,
        2 => &COW,
        _ => &CLONES,
    };
    let from_one = with_lender && (seed / 8) % 2 == 0;
    for _ in 0..nthreads {
        let n = if from_one { 0 } else { 1 + rng.below(2) };
        let mut v = vec![];
        for _ in 0..n {
            v.push(match rng.below(3) {
                0 => H::Arc(root.clone()),
                1 => H::Off(Arc::into_raw_offset(root.clone())),
                _ => H::Uni(ArcUnion::from_first(root.clone())),
            });
        }
        init.push(n);
        per.push(v);
    }
    let total: usize = init.iter().sum::<usize>() + if with_lender { 1 } else { 0 };
    // main keeps its handle either as an Arc (lent through ArcBorrow) or as an OffsetArc (lent by reference)
    let lend_offset = with_lender && (seed / 16) % 2 == 1;
    let mut root_arc: Option<Arc<A>> = None;
    let mut root_off: Option<Box<OffsetArc<A>>> = None;
    if with_lender && lend_offset {
        root_off = Some(Box::new(Arc::into_raw_offset(root)));
    } else if with_lender {
        root_arc = Some(root);
    } else {
        drop(root); // released before the threads start: count = handles given to the threads
    }
    let lender: Option<Lender> = if let Some(a) = &root_arc {
        Some(Lender::Borrow(unsafe { std::mem::transmute::<triomphe::ArcBorrow<'_, A>, triomphe::ArcBorrow<'static, A>>(a.borrow_arc()) }))
    } else if let Some(o) = &root_off {
        Some(Lender::Offset(unsafe { &*(&**o as *const OffsetArc<A>) }))
    } else {
        None
    };
    ev::LOG.clear();
    SERIALISE.store(true, Ordering::SeqCst);
    let barrier = StdArc::new(Barrier::new(nthreads));
    let yields = seed % 2 == 0;
    // two runs out of three are scheduled cooperatively (uniform interleavings, reproducible from the
    // seed); the third is left to the OS scheduler with yields
    let coop = seed % 3 != 0;
    YIELD_EVERY.store(if coop { 0 } else { [1usize, 2, 3][(seed % 3) as usize] }, Ordering::SeqCst);
    if coop {
        let tids: Vec<u32> = (1..=nthreads as u32).collect();
        sched_start(seed, &tids);
    }
    let mut joins = vec![];
    for (t, hs) in per.into_iter().enumerate() {
        let b = barrier.clone();
        let s = rng.next();
        struct SendIt(Vec<H>);
        unsafe impl Send for SendIt {}
        let pack = SendIt(hs);
        joins.push(std::thread::spawn(move || {
            let pack = pack;
            b.wait();
            worker(t as u32 + 1, pack.0, s, nops, shared, yields, lender, menu);
        }));
    }
    let nworkers = joins.len();
    for j in joins {
        let _ = j.join();
    }
    sched_stop();
    // the joins order everything the workers did before what main does now
    TID.with(|t| t.set(5));
    for w in 1..=nworkers {
        LOG.push(Ev::Mark { tid: w as u32, code: SYNC, a: 5 });
    }
    if root_arc.is_some() || root_off.is_some() {
        mark(START, 2);
        mark(HDEC, 0);
        drop(root_arc.take());
        drop(root_off.take());
        mark(END, 0);
    }
    TID.with(|t| t.set(0));
    SERIALISE.store(false, Ordering::SeqCst);
    alloc::track(false);
    let mut init = init;
    init.resize(4, 0);
    init.push(if with_lender { 1 } else { 0 });
    let lines = convert(ev::drain(), shared, pid, init, total, nthreads, seed);
    if ev::LOG.overflow.load(Ordering::SeqCst) {
        eprintln!("event log overflow");
        std::process::exit(2);
    }
    lines
}

// ------------------------------------------------------------------ deterministic preemption injection
/// One victim call on thread 1; an adversary acting as thread 2 runs right before the victim's k-th count
/// operation (and optionally again before its k2-th). Everything is logged as in the threaded runs and
/// judged by ArcMMTrace, so the outcome is decided by the memory-model specification.
pub fn run_injections(out_path: &str) {
    use crate::trace::{inject_reset, INJECT};
    use std::io::Write;
    use triomphe::{HeaderSlice, HeaderWithLength, ThinArc};
    type Fat = Arc<HeaderSlice<HeaderWithLength<A>, [u32]>>;
    enum V {
        Arc(Arc<A>),
        Off(OffsetArc<A>),
        Uni(ArcUnion<A, B>),
        // second variant, both payload types equally aligned
        Uni2(ArcUnion<E, A>),
        Thin(ThinArc<A, u32>),
        Fat(Fat),
    }
    fn payload(v: &V) -> *const A {
        match v {
            V::Arc(a) => &**a,
            V::Off(o) => &**o,
            V::Uni(u) => u.as_first().map(|b| b.get() as *const A).unwrap_or(std::ptr::null()),
            V::Uni2(u) => u.as_second().map(|b| b.get() as *const A).unwrap_or(std::ptr::null()),
            V::Thin(t) => &t.header.header,
            V::Fat(f) => &f.header.header,
        }
    }
    fn clone_v(v: &V) -> V {
        match v {
            V::Arc(a) => V::Arc(a.clone()),
            V::Off(o) => V::Off(o.clone()),
            V::Uni(u) => V::Uni(u.clone()),
            V::Uni2(u) => V::Uni2(u.clone()),
            V::Thin(t) => V::Thin(t.clone()),
            V::Fat(f) => V::Fat(f.clone()),
        }
    }
    let kinds = ["arc", "off", "uni", "uni2", "thin", "fat"];
    // "is_unique": an inspection through a shared reference (the handle is Sync)
    let victim_ops = ["drop", "clone", "clone_arc", "try_unwrap", "make_mut", "unwrap_or_clone", "get_mut", "clone_from", "is_unique"];
    // "clone_shared": the adversary clones through a shared reference to the VICTIM's handle (handles are Sync);
    // only legal while the victim call itself only borrows its handle (clone, clone_arc)
    let adversary = ["drop1", "drop2", "clone_drop", "try_unwrap", "read_drop1", "clone", "clone_shared"];
    let mut w = std::io::BufWriter::new(std::fs::File::create(out_path).unwrap());
    let mut progress = std::fs::File::create(format!("{}.progress", out_path)).unwrap();
    let mut scen = 0u64;
    for kind in kinds {
        for vop in victim_ops {
            // which victim operations exist for which kind
            let ok = match (kind, vop) {
                (_, "drop") | (_, "clone") | (_, "clone_from") => true,
                ("off", "clone_arc") => true,
                ("arc", "clone_arc") => true,
                ("arc", "try_unwrap") | ("arc", "make_mut") | ("arc", "unwrap_or_clone") | ("arc", "get_mut") => true,
                ("off", "make_mut") => true,
                ("fat", "get_mut") => true,
                ("arc", "is_unique") | ("thin", "is_unique") | ("fat", "is_unique") => true,
                _ => false,
            };
            if !ok {
                continue;
            }
            for others in [0usize, 1, 2] {
                for adv in adversary {
                    if adv == "clone_shared" && !(vop == "clone" || vop == "clone_arc" || vop == "is_unique") {
                        continue;
                    }
                    if others == 0 && adv != "clone_shared" {
                        continue;
                    }
                    for k1 in 1..=3usize {
                      // the adversary runs right before the victim's k-th count operation, or right after it
                      for after in [false, true] {
                        for k2 in [0usize, 1, 2] {
                            // k2 = 0: one preemption; else a second one k2 events after the first
                            if k2 != 0 && !(vop == "clone" || vop == "clone_arc" || vop == "drop") {
                                continue;
                            }
                            if after && (k2 != 0 || k1 > 2) {
                                continue;
                            }
                            scen += 1;
                            alloc::reset();
                            ev::LOG.clear();
                            // the process keeps a note of the scenario in progress: a fault on a released or
                            // out-of-bounds address ends the process, and the stage names the scenario
                            {
                                use std::io::{Seek, Write as _};
                                let _ = progress.seek(std::io::SeekFrom::Start(0));
                                let _ = write!(progress, "{:<100}\n", format!("{} {} others={} adversary={} {} event {} (+{})", kind, vop, others, adv, if after { "after" } else { "at" }, k1, k2));
                            }
                            // every block of the scenario lives in a mapping of its own that becomes inaccessible on release
                            alloc::GUARD.store(true, Ordering::SeqCst);
                            crate::trace::INJECT_AFTER.with(|c| c.set(after));
                            alloc::track(true);
                            // ---- set-up (creation happens-before everything: not logged)
                            let mk = |v: u32| -> V {
                                match kind {
                                    "arc" => V::Arc(Arc::new(A::mk(v))),
                                    "off" => V::Off(Arc::into_raw_offset(Arc::new(A::mk(v)))),
                                    "uni" => V::Uni(ArcUnion::from_first(Arc::new(A::mk(v)))),
                                    "uni2" => V::Uni2(ArcUnion::from_second(Arc::new(A::mk(v)))),
                                    "thin" => V::Thin(ThinArc::from_header_and_slice(A::mk(v), &[1, 2, 3])),
                                    _ => V::Fat(Arc::from_header_and_slice(HeaderWithLength::new(A::mk(v), 3), &[1, 2, 3])),
                                }
                            };
                            let victim = mk(1);
                            let pa = payload(&victim);
                            let pid = unsafe { A::peek(pa).id };
                            let shared = match &victim {
                                V::Arc(a) => a.heap_ptr() as usize,
                                V::Off(o) => o.with_arc(|a| a.heap_ptr() as usize),
                                V::Uni(u) => u.as_first().unwrap().with_arc(|a| a.heap_ptr() as usize),
                                V::Uni2(u) => u.as_second().unwrap().with_arc(|a| a.heap_ptr() as usize),
                                V::Thin(t) => t.heap_ptr() as usize,
                                V::Fat(f) => f.heap_ptr() as usize,
                            };
                            let mut theirs: Vec<V> = (0..others).map(|_| clone_v(&victim)).collect();
                            let victim_ref: *const V = &victim;
                            let spare = mk(2); // a second value, for clone_from
                            ev::LOG.clear();
                            SERIALISE.store(true, Ordering::SeqCst);
                            inject_reset();
                            // ---- the adversary, as thread 2
                            let theirs_p: *mut Vec<V> = &mut theirs;
                            let fired = std::rc::Rc::new(std::cell::Cell::new(0usize));
                            let fired2 = fired.clone();
                            let act = move |k: usize| {
                                let n = fired2.get();
                                let due = (n == 0 && k == k1) || (n == 1 && k2 != 0 && k == k1 + k2);
                                if !due {
                                    return;
                                }
                                fired2.set(n + 1);
                                let prev = TID.with(|t| t.replace(2));
                                let hs = unsafe { &mut *theirs_p };
                                mark(START, 2);
                                match adv {
                                    "drop1" => {
                                        if let Some(h) = hs.pop() {
                                            mark(HDEC, 0);
                                            drop(h);
                                        }
                                    }
                                    "drop2" => {
                                        while let Some(h) = hs.pop() {
                                            mark(HDEC, 0);
                                            drop(h);
                                        }
                                    }
                                    "clone_drop" => {
                                        if let Some(h) = hs.last() {
                                            let c = clone_v(h);
                                            mark(HINC, 0);
                                            mark(HDEC, 0);
                                            drop(c);
                                        }
                                    }
                                    "clone" => {
                                        if let Some(h) = hs.last() {
                                            let c = clone_v(h);
                                            mark(HINC, 0);
                                            hs.push(c);
                                        }
                                    }
                                    "clone_shared" => {
                                        let c = clone_v(unsafe { &*victim_ref });
                                        mark(HINC, 0);
                                        hs.push(c);
                                    }
                                    "read_drop1" => {
                                        if let Some(h) = hs.pop() {
                                            read_payload(unsafe { &*payload(&h) });
                                            mark(HDEC, 0);
                                            drop(h);
                                        }
                                    }
                                    _ => match hs.pop() {
                                        Some(V::Arc(a)) => {
                                            mark(HDEC, 0);
                                            match Arc::try_unwrap(a) {
                                                Ok(v) => {
                                                    mark(MOVEOUT, 0);
                                                    std::mem::forget(v);
                                                }
                                                Err(a) => {
                                                    mark(HINC, 0);
                                                    hs.push(V::Arc(a));
                                                }
                                            }
                                        }
                                        Some(h) => {
                                            mark(HDEC, 0);
                                            drop(h);
                                        }
                                        None => {}
                                    },
                                }
                                mark(END, 0);
                                TID.with(|t| t.set(prev));
                            };
                            INJECT.with(|i| *i.borrow_mut() = Some(Box::new(act)));
                            // ---- the victim call, as thread 1
                            TID.with(|t| t.set(1));
                            let mut kept: Vec<V> = vec![];
                            mark(START, 0);
                            if adv == "clone_shared" {
                                // the victim call only borrows its handle; it stays where `victim_ref` points
                                match (vop, &victim) {
                                    ("clone", v) => {
                                        let c = clone_v(v);
                                        mark(HINC, 0);
                                        kept.push(c);
                                    }
                                    ("clone_arc", V::Off(o)) => {
                                        let c = o.clone_arc();
                                        mark(HINC, 0);
                                        kept.push(V::Arc(c));
                                    }
                                    ("clone_arc", V::Arc(a)) => {
                                        let c = a.borrow_arc().clone_arc();
                                        mark(HINC, 0);
                                        kept.push(V::Arc(c));
                                    }
                                    ("is_unique", V::Arc(a)) => {
                                        let _ = a.is_unique();
                                    }
                                    ("is_unique", V::Thin(t)) => {
                                        let _ = t.with_arc(|a| a.is_unique());
                                    }
                                    ("is_unique", V::Fat(f)) => {
                                        let _ = f.is_unique();
                                    }
                                    _ => {}
                                }
                                kept.push(victim);
                            } else {
                            match (vop, victim) {
                                ("drop", v) => {
                                    mark(HDEC, 0);
                                    drop(v);
                                }
                                ("clone", v) => {
                                    let c = clone_v(&v);
                                    mark(HINC, 0);
                                    kept.push(c);
                                    kept.push(v);
                                }
                                ("clone_arc", V::Off(o)) => {
                                    let c = o.clone_arc();
                                    mark(HINC, 0);
                                    kept.push(V::Arc(c));
                                    kept.push(V::Off(o));
                                }
                                ("clone_arc", V::Arc(a)) => {
                                    let c = a.borrow_arc().clone_arc();
                                    mark(HINC, 0);
                                    kept.push(V::Arc(c));
                                    kept.push(V::Arc(a));
                                }
                                ("try_unwrap", V::Arc(a)) => {
                                    mark(HDEC, 0);
                                    match Arc::try_unwrap(a) {
                                        Ok(v) => {
                                            mark(MOVEOUT, 0);
                                            std::mem::forget(v);
                                        }
                                        Err(a) => {
                                            mark(HINC, 0);
                                            kept.push(V::Arc(a));
                                        }
                                    }
                                }
                                ("make_mut", V::Arc(mut a)) => {
                                    mark(HDEC, 0);
                                    write_payload(Arc::make_mut(&mut a), 9);
                                    if a.heap_ptr() as usize == shared {
                                        mark(HINC, 0);
                                        kept.push(V::Arc(a));
                                    } else {
                                        std::mem::forget(a);
                                    }
                                }
                                ("make_mut", V::Off(mut o)) => {
                                    mark(HDEC, 0);
                                    write_payload(o.make_mut(), 9);
                                    if (&*o as *const A as usize) - 8 == shared {
                                        mark(HINC, 0);
                                        kept.push(V::Off(o));
                                    } else {
                                        std::mem::forget(o);
                                    }
                                }
                                ("unwrap_or_clone", V::Arc(a)) => {
                                    mark(HDEC, 0);
                                    let v = Arc::unwrap_or_clone(a);
                                    if v.see().id == pid {
                                        mark(MOVEOUT, 0);
                                    }
                                    std::mem::forget(v);
                                }
                                ("get_mut", V::Arc(mut a)) => {
                                    if let Some(r) = Arc::get_mut(&mut a) {
                                        write_payload(r, 9);
                                    }
                                    kept.push(V::Arc(a));
                                }
                                ("get_mut", V::Fat(mut f)) => {
                                    if let Some(r) = Arc::get_mut(&mut f) {
                                        write_payload(&mut r.header.header, 9);
                                    }
                                    kept.push(V::Fat(f));
                                }
                                ("is_unique", v) => {
                                    match &v {
                                        V::Arc(a) => {
                                            let _ = a.is_unique();
                                        }
                                        V::Thin(t) => {
                                            let _ = t.with_arc(|a| a.is_unique());
                                        }
                                        V::Fat(f) => {
                                            let _ = f.is_unique();
                                        }
                                        _ => {}
                                    }
                                    kept.push(v);
                                }
                                ("clone_from", v) => {
                                    // the victim's handle is overwritten by a clone of another value: its own
                                    // reference to the shared value is released
                                    let mut v = v;
                                    mark(HDEC, 0);
                                    match (&mut v, &spare) {
                                        (V::Arc(x), V::Arc(y)) => x.clone_from(y),
                                        (V::Off(x), V::Off(y)) => x.clone_from(y),
                                        (V::Uni(x), V::Uni(y)) => x.clone_from(y),
                                        (V::Uni2(x), V::Uni2(y)) => x.clone_from(y),
                                        (V::Thin(x), V::Thin(y)) => x.clone_from(y),
                                        (V::Fat(x), V::Fat(y)) => x.clone_from(y),
                                        _ => {}
                                    }
                                    std::mem::forget(v);
                                }
                                (_, v) => kept.push(v),
                            }
                            }
                            mark(END, 0);
                            INJECT.with(|i| *i.borrow_mut() = None);
                            crate::trace::INJECT_AFTER.with(|c| c.set(false));
                            // ---- the adversary releases what it still holds, then the victim
                            TID.with(|t| t.set(2));
                            while let Some(h) = theirs.pop() {
                                mark(START, 2);
                                mark(HDEC, 0);
                                drop(h);
                                mark(END, 0);
                            }
                            TID.with(|t| t.set(1));
                            while let Some(h) = kept.pop() {
                                mark(START, 2);
                                mark(HDEC, 0);
                                drop(h);
                                mark(END, 0);
                            }
                            TID.with(|t| t.set(0));
                            SERIALISE.store(false, Ordering::SeqCst);
                            std::mem::forget(spare);
                            alloc::track(false);
                            let mut lines = convert(ev::drain(), shared, pid, vec![1, others], 1 + others, 2, scen);
                            if let Some(l0) = lines.get_mut(0) {
                                l0["scenario"] = json!(format!("{} {} others={} adversary={} {} event {} (+{})", kind, vop, others, adv, if after { "after" } else { "at" }, k1, k2));
                            }
                            for l in &lines {
                                writeln!(w, "{}", l).unwrap();
                            }
                            let _ = w.flush();
                        }
                      }
                    }
                }
            }
        }
    }
    alloc::reset();
}
