//! Identity-tracked payload types. Every object has a unique id; its destructor and its
//! Clone impl are logged; a destructor or read that meets something that is not a live object
//! (fresh-memory poison, freed-memory poison, an already destroyed object) is reported, not
//! crashed on.

use crate::ev::{Ev, LOG};
use std::sync::atomic::{AtomicBool, AtomicU32, Ordering};

pub const MAGIC: u32 = 0x7A11_C0DE;
pub const DEAD: u32 = 0x0DEA_D0B1;

pub static NEXT_ID: AtomicU32 = AtomicU32::new(1);
/// when set, the next payload Clone::clone panics (and clears the flag)
pub static CLONE_PANIC: AtomicBool = AtomicBool::new(false);

pub struct ClonePanic;
/// a defect of the harness itself (an operation applied to a handle of the wrong kind): never the crate's
pub struct HarnessBug(pub String);
pub fn harness_bug(msg: &str) -> ! {
    std::panic::panic_any(HarnessBug(msg.to_string()))
}
thread_local! {
    /// run once inside the next payload Clone::clone (a deterministic "scheduling point" inside the
    /// library call for the protocol extraction)
    pub static CLONE_HOOK: std::cell::RefCell<Option<Box<dyn FnOnce()>>> = const { std::cell::RefCell::new(None) };
}
/// when set, the next comparison / hash / format of an `A` payload panics (and clears the flag)
pub static OBS_PANIC: AtomicBool = AtomicBool::new(false);
pub struct ObsPanic;
/// when set, every `Debug` / `Display` of an `A` payload returns an error without writing anything
pub static OBS_FMT_ERR: AtomicBool = AtomicBool::new(false);
thread_local! {
    /// run inside every comparison / hash / format of an `A` payload: lets a case look at the counts while a
    /// handle-level comparison, hash or format is in progress
    pub static OBS_HOOK: std::cell::RefCell<Option<Box<dyn FnMut()>>> = const { std::cell::RefCell::new(None) };
}
fn obs_fault() {
    let f = OBS_HOOK.with(|h| h.borrow_mut().take());
    if let Some(mut f) = f {
        f();
        OBS_HOOK.with(|h| *h.borrow_mut() = Some(f));
    }
    if OBS_PANIC.swap(false, Ordering::SeqCst) {
        std::panic::panic_any(ObsPanic);
    }
}
impl Default for A {
    fn default() -> A {
        A::mk(0)
    }
}
impl PartialEq for A {
    fn eq(&self, o: &A) -> bool {
        obs_fault();
        self.val == o.val
    }
}
impl Eq for A {}
impl PartialOrd for A {
    fn partial_cmp(&self, o: &A) -> Option<std::cmp::Ordering> {
        obs_fault();
        self.val.partial_cmp(&o.val)
    }
}
impl Ord for A {
    fn cmp(&self, o: &A) -> std::cmp::Ordering {
        obs_fault();
        self.val.cmp(&o.val)
    }
}
impl std::hash::Hash for A {
    fn hash<H: std::hash::Hasher>(&self, h: &mut H) {
        obs_fault();
        self.val.hash(h)
    }
}
impl std::fmt::Debug for A {
    fn fmt(&self, f: &mut std::fmt::Formatter) -> std::fmt::Result {
        obs_fault();
        if OBS_FMT_ERR.load(Ordering::SeqCst) {
            return Err(std::fmt::Error);
        }
        write!(f, "A({})", self.val)
    }
}
impl std::fmt::Display for A {
    fn fmt(&self, f: &mut std::fmt::Formatter) -> std::fmt::Result {
        obs_fault();
        if OBS_FMT_ERR.load(Ordering::SeqCst) {
            return Err(std::fmt::Error);
        }
        write!(f, "{}", self.val)
    }
}

pub fn fresh_id() -> u32 {
    NEXT_ID.fetch_add(1, Ordering::Relaxed)
}

/// what a read of a payload saw
#[derive(Clone, Copy, Debug, PartialEq, Eq)]
pub struct Seen {
    pub ok: bool,
    pub id: u32,
    pub val: u32,
    pub magic: u32,
}

pub trait Pay: Sized + Clone + 'static {
    const NAME: &'static str;
    fn mk(val: u32) -> Self;
    fn set_val(&mut self, v: u32);
    /// volatile read of the identity fields through a raw pointer (may point at poison)
    unsafe fn peek(p: *const Self) -> Seen;
    fn see(&self) -> Seen {
        unsafe { Self::peek(self) }
    }
}

/// object-safe view, for `Arc<dyn Probe>`
pub trait Probe {
    fn pid(&self) -> u32;
    fn psee(&self) -> Seen;
    fn pset(&mut self, v: u32);
}

macro_rules! payload {
    ($name:ident, $repr:meta, $padlen:expr, $tag:expr) => {
        #[$repr]
        pub struct $name {
            pub magic: u32,
            pub id: u32,
            pub val: u32,
            pub pad: [u8; $padlen],
        }
        impl Pay for $name {
            const NAME: &'static str = stringify!($name);
            fn mk(val: u32) -> Self {
                $name { magic: MAGIC ^ $tag, id: fresh_id(), val, pad: [0x11; $padlen] }
            }
            fn set_val(&mut self, v: u32) {
                self.val = v;
            }
            unsafe fn peek(p: *const Self) -> Seen {
                let magic = std::ptr::addr_of!((*p).magic).read_volatile();
                let id = std::ptr::addr_of!((*p).id).read_volatile();
                let val = std::ptr::addr_of!((*p).val).read_volatile();
                // the magic is specific to the type: a destructor (or accessor) of another payload type run on
                // this value sees a foreign magic
                Seen { ok: magic == MAGIC ^ $tag, id, val, magic }
            }
        }
        impl Probe for $name {
            fn pid(&self) -> u32 {
                self.see().id
            }
            fn psee(&self) -> Seen {
                self.see()
            }
            fn pset(&mut self, v: u32) {
                self.val = v;
            }
        }
        impl Clone for $name {
            fn clone(&self) -> Self {
                if CLONE_PANIC.swap(false, Ordering::SeqCst) {
                    LOG.push(Ev::Clone { src: self.id, new: 0, tid: crate::ev::tid() });
                    std::panic::panic_any(ClonePanic);
                }
                let n = $name { magic: MAGIC ^ $tag, id: fresh_id(), val: self.val, pad: [0x11; $padlen] };
                if let Some(f) = CLONE_HOOK.with(|c| c.borrow_mut().take()) {
                    f();
                }
                LOG.push(Ev::Clone { src: self.id, new: n.id, tid: crate::ev::tid() });
                n
            }
        }
        // (the `plain_payloads` build has payloads without drop glue whose Clone is still not a byte copy)
        #[cfg(not(feature = "plain_payloads"))]
        impl Drop for $name {
            fn drop(&mut self) {
                let s = unsafe { Self::peek(self) };
                if s.ok {
                    LOG.push(Ev::Drop { id: s.id, addr: self as *const _ as usize, tid: crate::ev::tid() });
                    unsafe { std::ptr::addr_of_mut!(self.magic).write_volatile(DEAD) };
                } else {
                    LOG.push(Ev::BadDrop { addr: self as *const _ as usize, magic: s.magic });
                }
            }
        }
    };
}

// A: 12 bytes, align 4 (the count's own alignment suffices: data offset 8)
payload!(A, repr(C), 0, 0x0A);
// B: 4112 bytes, align 16 (over-aligned: data offset 16, padding after the count; larger than any
// "small payload" threshold)
payload!(B, repr(C, align(16)), 4097, 0x0B00);
// E: element type of the header-slice family (16 bytes, align 4)
payload!(E, repr(C), 4, 0x0E_0000);

/// zero-sized header with a destructor: all of its instances share one identity
pub const ZID: u32 = 0xFFFF_FF00;
pub struct Zh;
impl Drop for Zh {
    fn drop(&mut self) {
        LOG.push(Ev::Drop { id: ZID, addr: self as *const _ as usize, tid: crate::ev::tid() });
    }
}
