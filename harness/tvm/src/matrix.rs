//! Layout / pointer matrix: for a sub-lattice of real (size, align) shapes, run every constructor
//! and every release path, and report what the allocator saw and where the data lives. The
//! expectations are NOT computed here: /verif/check joins these records with the table TLC
//! evaluates from Layout.tla.

use crate::alloc;
use crate::ev::{self, Ev};
use serde_json::{json, Value};
use std::mem::{align_of, size_of, MaybeUninit};
use triomphe::{Arc, ArcBorrow, ArcUnion, HeaderSlice, HeaderWithLength, OffsetArc, ThinArc, UniqueArc};
use unsize::{CoerceUnsize, Coercion};

pub trait Shape: Copy + 'static {
    fn fill(tag: u8) -> Self;
    fn ok(&self, tag: u8) -> bool;
}
pub trait Tagged {
    fn tag_ok(&self, tag: u8) -> bool;
}

macro_rules! blob {
    ($name:ident, $size:expr, $align:expr) => {
        #[repr(C, align($align))]
        #[derive(Clone, Copy)]
        pub struct $name(pub [u8; $size]);
        impl Shape for $name {
            fn fill(tag: u8) -> Self {
                $name([tag; $size])
            }
            fn ok(&self, tag: u8) -> bool {
                self.0.iter().all(|b| *b == tag)
            }
        }
        impl Tagged for $name {
            fn tag_ok(&self, tag: u8) -> bool {
                self.ok(tag)
            }
        }
    };
}
blob!(Z1, 0, 1);
blob!(Z8, 0, 8);
blob!(Z16, 0, 16);
blob!(Z64, 0, 64);
blob!(S1a1, 1, 1);
blob!(S3a1, 3, 1);
blob!(S5a1, 5, 1);
blob!(S2a2, 2, 2);
blob!(S6a2, 6, 2);
blob!(S4a4, 4, 4);
blob!(S12a4, 12, 4);
blob!(S8a8, 8, 8);
blob!(S24a8, 24, 8);
blob!(S40a8, 40, 8);
blob!(S16a16, 16, 16);
blob!(S48a16, 48, 16);
blob!(S32a32, 32, 32);
blob!(S64a64, 64, 64);
blob!(S128a128, 128, 128);
blob!(S320a8, 320, 8);
blob!(Z256, 0, 256);
blob!(S4096a4096, 4096, 4096);

fn sh<T>() -> Value {
    json!([size_of::<T>(), align_of::<T>()])
}

/// bracket the constructor call: allocations made inside it other than the block itself must be
/// returned by its end (source containers are consumed, temporaries freed)
fn ctor_<R>(f: impl FnOnce() -> R) -> R {
    ev::LOG.push(Ev::Mark { tid: 0, code: 1, a: 0 });
    let r = f();
    ev::LOG.push(Ev::Mark { tid: 0, code: 2, a: 0 });
    r
}

struct Seen {
    evs: Vec<Ev>,
}
impl Seen {
    fn alloc_of(&self, addr: usize) -> Value {
        for e in &self.evs {
            if let Ev::Alloc { addr: a, size, align } = e {
                if *a == addr {
                    return json!([size, align]);
                }
            }
        }
        Value::Null
    }
    fn deallocs_of(&self, addr: usize) -> Value {
        let mut v = vec![];
        for e in &self.evs {
            if let Ev::Dealloc { addr: a, size, align, status, .. } = e {
                if *a == addr {
                    v.push(json!([size, align, status]));
                }
            }
        }
        Value::Array(v)
    }
    fn other_live(&self, addr: usize) -> usize {
        // allocations other than the block that were not returned (source containers etc.)
        let mut live: Vec<usize> = vec![];
        let mut inside = false;
        for e in &self.evs {
            match e {
                Ev::Mark { code: 1, .. } => inside = true,
                Ev::Mark { code: 2, .. } => inside = false,
                Ev::Alloc { addr: a, .. } if inside && *a != addr => live.push(*a),
                Ev::Dealloc { addr: a, .. } if inside => live.retain(|x| x != a),
                _ => {}
            }
        }
        live.len()
    }
    fn bad(&self) -> usize {
        self.evs
            .iter()
            .filter(|e| matches!(e, Ev::Dealloc { status, .. } if *status != 0) || matches!(e, Ev::BadDrop { .. }))
            .count()
    }
}

pub static PROGRESS: std::sync::Mutex<Option<std::fs::File>> = std::sync::Mutex::new(None);

/// crash attribution: remember which case is in progress
fn note_progress(rec: &Value) {
    use std::io::{Seek, Write};
    if let Some(f) = PROGRESS.lock().unwrap().as_mut() {
        let _ = f.set_len(0);
        let _ = f.seek(std::io::SeekFrom::Start(0));
        let _ = writeln!(f, "{}", rec);
    }
}

/// run `f` (constructor -> (heap address, measurements, release closure)), then the release
fn case(out: &mut Vec<Value>, mut rec: Value, f: impl FnOnce() -> (usize, Value, Box<dyn FnOnce()>)) {
    note_progress(&rec);
    ev::LOG.clear();
    alloc::track(true);
    let r = std::panic::catch_unwind(std::panic::AssertUnwindSafe(|| {
        let (heap, meas, release) = f();
        release();
        (heap, meas)
    }));
    alloc::track(false);
    let seen = Seen { evs: ev::drain() };
    // `meas` was allocated under tracking: copy it into untracked memory before reset() frees that
    let r = r.map(|(heap, meas)| {
        let copy: Value = serde_json::from_str(&meas.to_string()).unwrap();
        drop(meas);
        (heap, copy)
    });
    match r {
        Ok((heap, meas)) => {
            rec["alloc"] = seen.alloc_of(heap);
            rec["deallocs"] = seen.deallocs_of(heap);
            rec["other_live"] = json!(seen.other_live(heap));
            rec["bad_events"] = json!(seen.bad() + alloc::overruns());
            rec["meas"] = meas;
            rec["panicked"] = json!(false);
        }
        Err(_) => {
            rec["panicked"] = json!(true);
        }
    }
    out.push(rec);
    alloc::reset();
}

fn meas_hs<H: Tagged, T: Shape>(heap: usize, a: &Arc<HeaderSlice<H, [T]>>, n: usize, htag: u8) -> Value {
    let hdr = &a.header as *const H as usize;
    let sl = a.slice.as_ptr() as usize;
    json!({
        "heap_is_block": a.heap_ptr() as usize == heap,
        "data_off": Arc::as_ptr(a) as *const u8 as usize - heap,
        "hdr_off": hdr - heap,
        "slice_off": sl - heap,
        "len": a.slice.len(),
        "len_ok": a.slice.len() == n,
        "hdr_aligned": hdr % align_of::<H>().max(1) == 0,
        "slice_aligned": sl % align_of::<T>() == 0,
        "contents_ok": a.header.tag_ok(htag) && a.slice.iter().enumerate().all(|(i, e)| e.ok(i as u8 + 1)),
    })
}

impl<H: Tagged> Tagged for HeaderWithLength<H> {
    fn tag_ok(&self, tag: u8) -> bool {
        self.header.tag_ok(tag)
    }
}
impl Tagged for () {
    fn tag_ok(&self, _: u8) -> bool {
        true
    }
}

fn elems<T: Shape>(n: usize) -> Vec<T> {
    (0..n).map(|i| T::fill(i as u8 + 1)).collect()
}

/// header-slice blocks with header shape H and element shape T
pub fn pair<H: Shape + Tagged, T: Shape>(out: &mut Vec<Value>) {
    for n in [0usize, 1, 2, 3, 5, 9] {
        let base = json!({"family": "hs", "h": sh::<H>(), "t": sh::<T>(), "n": n});
        macro_rules! go {
            ($ctor:expr, $path:expr, $body:expr) => {{
                let mut rec = base.clone();
                rec["ctor"] = json!($ctor);
                rec["path"] = json!($path);
                case(out, rec, $body);
            }};
        }
        // ---- plain header H
        for ctor in ["iter", "slice", "vec"] {
            for path in ["drop", "clone_drop", "raw_roundtrip"] {
                go!(ctor, path, move || {
                    let a: Arc<HeaderSlice<H, [T]>> = ctor_(|| match ctor {
                        "iter" => Arc::from_header_and_iter(H::fill(0x77), elems::<T>(n).into_iter()),
                        "slice" => Arc::from_header_and_slice(H::fill(0x77), &elems::<T>(n)),
                        _ => {
                            let mut v = elems::<T>(n);
                            v.reserve(3);
                            Arc::from_header_and_vec(H::fill(0x77), v)
                        }
                    });
                    let heap = a.heap_ptr() as usize;
                    let m = meas_hs(heap, &a, n, 0x77);
                    (heap, m, Box::new(move || match path {
                        "drop" => drop(a),
                        "clone_drop" => {
                            let b = a.clone();
                            drop(a);
                            drop(b);
                        }
                        _ => unsafe {
                            let p = Arc::into_raw(a);
                            drop(Arc::from_raw(p));
                        },
                    }))
                });
            }
        }
        // ---- header with length: fat -> thin and back
        for ctor in ["thin_iter", "thin_slice", "fat_into_thin"] {
            for path in ["drop_thin", "from_thin_drop", "thin_raw_roundtrip", "thin_clone_drop", "refcnt_roundtrip"] {
                go!(ctor, path, move || {
                    let t: ThinArc<H, T> = ctor_(|| match ctor {
                        "thin_iter" => ThinArc::from_header_and_iter(H::fill(0x77), elems::<T>(n).into_iter()),
                        "thin_slice" => ThinArc::from_header_and_slice(H::fill(0x77), &elems::<T>(n)),
                        _ => Arc::into_thin(Arc::from_header_and_iter(
                            HeaderWithLength::new(H::fill(0x77), n),
                            elems::<T>(n).into_iter(),
                        )),
                    });
                    let heap = t.heap_ptr() as usize;
                    let mut m = t.with_arc(|a| meas_hs(heap, a, n, 0x77));
                    m["thin_len_field_off"] = json!(&t.header.length as *const usize as usize - heap);
                    m["thin_recorded_len"] = json!(t.header.length);
                    m["thin_hdr_off"] = json!(&t.header.header as *const H as usize - heap);
                    m["thin_slice_off"] = json!(t.slice.as_ptr() as usize - heap);
                    m["thin_as_ptr_is_block"] = json!(t.as_ptr() as usize == heap && t.ptr() as usize == heap);
                    m["thin_one_word"] = json!(size_of::<ThinArc<H, T>>() == 8 && size_of::<Option<ThinArc<H, T>>>() == 8);
                    m["thin_refcnt_as_ptr_is_block"] = json!(<ThinArc<H, T> as arc_swap::RefCnt>::as_ptr(&t) as usize == heap);
                    m["thin_pointer_fmt_is_block"] = json!(format!("{:p}", t) == format!("{:p}", heap as *const u8));
                    if ctor == "fat_into_thin" && path == "drop_thin" {
                        // a recorded length that disagrees with the slice length is refused, also when both lengths
                        // give the same (padded) block layout
                        let refused = |rec: usize| {
                            let a = Arc::from_header_and_iter(HeaderWithLength::new(H::fill(0x78), rec), elems::<T>(n).into_iter());
                            std::panic::catch_unwind(std::panic::AssertUnwindSafe(move || {
                                let t = Arc::into_thin(a);
                                std::mem::forget(t);
                            }))
                            .is_err()
                        };
                        m["into_thin_refuses_longer"] = json!(refused(n + 1) && refused(n + 2));
                        if n > 0 {
                            m["into_thin_refuses_shorter"] = json!(refused(n - 1));
                        }
                    }
                    (heap, m, Box::new(move || match path {
                        "drop_thin" => drop(t),
                        "from_thin_drop" => drop(Arc::from_thin(t)),
                        "thin_clone_drop" => {
                            let u = t.clone();
                            drop(t);
                            drop(u);
                        }
                        "refcnt_roundtrip" => unsafe {
                            let p = <ThinArc<H, T> as arc_swap::RefCnt>::into_ptr(t);
                            drop(<ThinArc<H, T> as arc_swap::RefCnt>::from_ptr(p));
                        },
                        _ => unsafe {
                            let p = t.into_raw();
                            drop(ThinArc::<H, T>::from_raw(p));
                        },
                    }))
                });
            }
        }
        // ---- uninitialised construction, then assume_init
        for path in ["drop_uninit", "assume_init_drop"] {
            go!("uninit", path, move || {
                let mut u: UniqueArc<HeaderSlice<H, [MaybeUninit<T>]>> = UniqueArc::from_header_and_uninit_slice(H::fill(0x77), n);
                for (i, s) in u.slice.iter_mut().enumerate() {
                    s.write(T::fill(i as u8 + 1));
                }
                let a: Arc<HeaderSlice<H, [MaybeUninit<T>]>> = u.shareable();
                let heap = a.heap_ptr() as usize;
                let m = json!({
                    "heap_is_block": true,
                    "data_off": Arc::as_ptr(&a) as *const u8 as usize - heap,
                    "hdr_off": &a.header as *const H as usize - heap,
                    "slice_off": a.slice.as_ptr() as usize - heap,
                    "len": a.slice.len(),
                    "len_ok": a.slice.len() == n,
                    "hdr_aligned": true,
                    "slice_aligned": a.slice.as_ptr() as usize % align_of::<T>() == 0,
                    "contents_ok": a.header.tag_ok(0x77),
                });
                (heap, m, Box::new(move || match path {
                    "drop_uninit" => drop(a),
                    _ => unsafe {
                        let u = Arc::try_unique(a).ok().unwrap();
                        let i: UniqueArc<HeaderSlice<H, [T]>> = u.assume_init_slice_with_header();
                        let ok = i.slice.iter().enumerate().all(|(k, e)| e.ok(k as u8 + 1));
                        assert!(ok);
                        drop(i.shareable());
                    },
                }))
            });
        }
    }
}

/// plain slices / header erasure with element shape T
pub fn slice_of<T: Shape>(out: &mut Vec<Value>) {
    for n in [0usize, 1, 2, 3, 5, 9, 40, 100] {
        let base = json!({"family": "slice", "t": sh::<T>(), "n": n});
        for ctor in ["from_vec", "from_slice", "from_iter_exact", "from_iter_inexact", "new_uninit_slice"] {
            for path in ["drop", "erase_roundtrip_drop", "raw_slice_roundtrip"] {
                let mut rec = base.clone();
                rec["ctor"] = json!(ctor);
                rec["path"] = json!(path);
                case(out, rec, move || {
                    let a: Arc<[T]> = ctor_(|| match ctor {
                        "from_vec" => {
                            let mut v = elems::<T>(n);
                            v.reserve(2);
                            Arc::from(v)
                        }
                        "from_slice" => Arc::from(&elems::<T>(n)[..]),
                        "from_iter_exact" => elems::<T>(n).into_iter().collect(),
                        "from_iter_inexact" => elems::<T>(n).into_iter().filter(|_| true).collect(),
                        _ => unsafe {
                            let mut u = UniqueArc::<[MaybeUninit<T>]>::new_uninit_slice(n);
                            for (i, s) in u.iter_mut().enumerate() {
                                s.write(T::fill(i as u8 + 1));
                            }
                            UniqueArc::assume_init_slice(u).shareable()
                        },
                    });
                    let heap = a.heap_ptr() as usize;
                    let m = json!({
                        "heap_is_block": true,
                        "data_off": Arc::as_ptr(&a) as *const u8 as usize - heap,
                        "slice_off": (*a).as_ptr() as usize - heap,
                        "len": a.len(),
                        "len_ok": a.len() == n,
                        "slice_aligned": (*a).as_ptr() as usize % align_of::<T>() == 0,
                        "contents_ok": a.iter().enumerate().all(|(i, e)| e.ok(i as u8 + 1)),
                        "two_words": size_of::<Arc<[T]>>() == 16 && size_of::<Option<Arc<[T]>>>() == 16,
                    });
                    (heap, m, Box::new(move || match path {
                        "drop" => drop(a),
                        "erase_roundtrip_drop" => {
                            let h: Arc<HeaderSlice<(), [T]>> = a.into();
                            let b: Arc<[T]> = h.into();
                            drop(b);
                        }
                        _ => unsafe {
                            let p = Arc::into_raw(a);
                            drop(Arc::from_raw_slice(p));
                        },
                    }))
                });
            }
        }
    }
}

pub trait Probe2 {
    fn ok2(&self, tag: u8) -> bool;
}
impl<T: Shape> Probe2 for T {
    fn ok2(&self, tag: u8) -> bool {
        self.ok(tag)
    }
}

/// sized payload of shape T
pub fn single<T: Shape>(out: &mut Vec<Value>) {
    let base = json!({"family": "sized", "t": sh::<T>()});
    for ctor in ["new", "from_box", "unique_new", "new_uninit", "arc_new_uninit", "from_t"] {
        for path in ["drop", "clone_drop", "raw_roundtrip", "offset_drop", "offset_roundtrip", "offset_clone", "unsize_dyn_drop",
                     "raw_cast_dyn", "try_unwrap", "into_inner", "refcnt_roundtrip", "borrow_clone_arc", "make_mut_shared"] {
            let mut rec = base.clone();
            rec["ctor"] = json!(ctor);
            rec["path"] = json!(path);
            case(out, rec, move || {
                let a: Arc<T> = ctor_(|| unsafe {
                    match ctor {
                        "new" => Arc::new(T::fill(0x42)),
                        "from_t" => Arc::from(T::fill(0x42)),
                        "from_box" => Arc::from(Box::new(T::fill(0x42))),
                        "unique_new" => UniqueArc::new(T::fill(0x42)).shareable(),
                        "new_uninit" => {
                            let mut u = UniqueArc::<T>::new_uninit();
                            u.write(T::fill(0x42));
                            UniqueArc::assume_init(u).shareable()
                        }
                        _ => {
                            let mut u: Arc<MaybeUninit<T>> = Arc::new_uninit();
                            Arc::get_mut(&mut u).unwrap().write(T::fill(0x42));
                            u.assume_init()
                        }
                    }
                });
                let heap = a.heap_ptr() as usize;
                let data = Arc::as_ptr(&a) as usize;
                let off = Arc::into_raw_offset(a.clone());
                let off_bits: usize = unsafe { std::mem::transmute_copy(&off) };
                let bor = a.borrow_arc();
                let bor_bits: usize = unsafe { std::mem::transmute_copy(&bor) };
                let m = json!({
                    "heap_is_block": true,
                    "data_off": data - heap,
                    "deref_is_as_ptr": &*a as *const T as usize == data,
                    "data_aligned": data % align_of::<T>() == 0,
                    "contents_ok": a.ok(0x42),
                    "offset_bits_are_value_addr": off_bits == data,
                    "borrow_bits_are_value_addr": bor_bits == data,
                    "offset_heap": off.with_arc(|x| x.heap_ptr() as usize) - heap,
                    "borrow_heap": bor.with_arc(|x| x.heap_ptr() as usize) - heap,
                    "one_word": size_of::<Arc<T>>() == 8 && size_of::<Option<Arc<T>>>() == 8
                        && size_of::<OffsetArc<T>>() == 8 && size_of::<Option<OffsetArc<T>>>() == 8
                        && size_of::<ArcBorrow<'static, T>>() == 8 && size_of::<Option<ArcBorrow<'static, T>>>() == 8
                        && size_of::<UniqueArc<T>>() == 8 && size_of::<Option<UniqueArc<T>>>() == 8,
                    "dyn_two_words": size_of::<Arc<dyn Probe2>>() == 16 && size_of::<Option<Arc<dyn Probe2>>>() == 16,
                    "refcnt_as_ptr_is_value_addr": <Arc<T> as arc_swap::RefCnt>::as_ptr(&a) as usize == data,
                    "pointer_fmt_is_block": format!("{:p}", a) == format!("{:p}", heap as *const u8),
                });
                drop(off);
                (heap, m, Box::new(move || unsafe {
                    match path {
                        "drop" => drop(a),
                        "clone_drop" => {
                            let b = a.clone();
                            drop(a);
                            drop(b);
                        }
                        "raw_roundtrip" => {
                            let p = Arc::into_raw(a);
                            let b = Arc::from_raw(p);
                            assert!(b.heap_ptr() as usize == heap && b.ok(0x42) && Arc::count(&b) == 1);
                            drop(b);
                        }
                        "offset_drop" => drop(Arc::into_raw_offset(a)),
                        "offset_roundtrip" => {
                            let b = Arc::from_raw_offset(Arc::into_raw_offset(a));
                            assert!(b.heap_ptr() as usize == heap && Arc::count(&b) == 1);
                            drop(b);
                        }
                        "offset_clone" => {
                            let o = Arc::into_raw_offset(a);
                            let p = o.clone();
                            let q = o.clone_arc();
                            assert!(OffsetArc::strong_count(&o) == 3 && q.heap_ptr() as usize == heap);
                            drop(o);
                            drop(q);
                            drop(p);
                        }
                        "unsize_dyn_drop" => {
                            let d: Arc<dyn Probe2> = a.unsize(Coercion!(to dyn Probe2));
                            assert!(d.heap_ptr() as usize == heap && d.ok2(0x42));
                            drop(d);
                        }
                        "raw_cast_dyn" => {
                            let p = Arc::into_raw(a) as *const dyn Probe2;
                            let d: Arc<dyn Probe2> = Arc::from_raw(p);
                            assert!(d.heap_ptr() as usize == heap && d.ok2(0x42) && Arc::count(&d) == 1);
                            drop(d);
                        }
                        "try_unwrap" => {
                            let v = Arc::try_unwrap(a).ok().unwrap();
                            assert!(v.ok(0x42));
                        }
                        "into_inner" => {
                            let v = UniqueArc::into_inner(Arc::try_unique(a).ok().unwrap());
                            assert!(v.ok(0x42));
                        }
                        "refcnt_roundtrip" => {
                            let p = <Arc<T> as arc_swap::RefCnt>::into_ptr(a);
                            assert!(p as usize == data);
                            let b = <Arc<T> as arc_swap::RefCnt>::from_ptr(p);
                            assert!(b.heap_ptr() as usize == heap);
                            drop(b);
                        }
                        "borrow_clone_arc" => {
                            let b = ArcBorrow::from_ptr(Arc::as_ptr(&a)).clone_arc();
                            assert!(b.heap_ptr() as usize == heap && Arc::count(&a) == 2);
                            drop(a);
                            drop(b);
                        }
                        _ => {
                            let mut b = a.clone();
                            let r = Arc::make_mut(&mut b);
                            assert!(r.ok(0x42));
                            assert!(b.heap_ptr() as usize != heap && Arc::count(&a) == 1);
                            drop(b);
                            drop(a);
                        }
                    }
                }))
            });
        }
    }
}

/// ArcUnion over an ordered pair of payload shapes
pub fn union<X: Shape, Y: Shape>(out: &mut Vec<Value>) {
    let base = json!({"family": "union", "a": sh::<X>(), "b": sh::<Y>()});
    for variant in ["first", "second"] {
        for path in ["drop", "clone_drop", "borrow_clone_arc_drop", "interleaved_with_arc"] {
            let mut rec = base.clone();
            rec["ctor"] = json!(variant);
            rec["path"] = json!(path);
            case(out, rec, move || {
                let (u, heap, data, plain): (ArcUnion<X, Y>, usize, usize, Box<dyn std::any::Any>) = if variant == "first" {
                    let a = Arc::new(X::fill(0x21));
                    let (h, d) = (a.heap_ptr() as usize, Arc::as_ptr(&a) as usize);
                    let keep = a.clone();
                    (ArcUnion::from_first(a), h, d, Box::new(keep))
                } else {
                    let a = Arc::new(Y::fill(0x21));
                    let (h, d) = (a.heap_ptr() as usize, Arc::as_ptr(&a) as usize);
                    let keep = a.clone();
                    (ArcUnion::from_second(a), h, d, Box::new(keep))
                };
                let first = variant == "first";
                let (bheap, bdata, bcount, bok) = match u.borrow() {
                    triomphe::ArcUnionBorrow::First(b) => (b.with_arc(|x| x.heap_ptr() as usize), b.get() as *const X as usize, ArcBorrow::strong_count(&b), b.ok(0x21)),
                    triomphe::ArcUnionBorrow::Second(b) => (b.with_arc(|x| x.heap_ptr() as usize), b.get() as *const Y as usize, ArcBorrow::strong_count(&b), b.ok(0x21)),
                };
                let m = json!({
                    "heap_is_block": bheap == heap,
                    "data_off": data - heap,
                    "same_value_addr": bdata == data,
                    "variant_ok": u.is_first() == first && u.is_second() != first
                        && u.as_first().is_some() == first && u.as_second().is_some() != first,
                    "count_is_two": bcount == 2 && ArcUnion::strong_count(&u) == 2,
                    "contents_ok": bok,
                    "one_word": size_of::<ArcUnion<X, Y>>() == 8 && size_of::<Option<ArcUnion<X, Y>>>() == 8,
                    "tag_bit_free": data % 2 == 0,
                });
                (heap, m, Box::new(move || match path {
                    "drop" => {
                        drop(u);
                        drop(plain);
                    }
                    "clone_drop" => {
                        let v = u.clone();
                        assert!(ArcUnion::strong_count(&v) == 3 && v.is_first() == first && ArcUnion::ptr_eq(&u, &v));
                        drop(plain);
                        drop(u);
                        assert!(ArcUnion::strong_count(&v) == 1);
                        drop(v);
                    }
                    "borrow_clone_arc_drop" => {
                        match u.borrow() {
                            triomphe::ArcUnionBorrow::First(b) => {
                                let c = b.clone_arc();
                                assert!(Arc::count(&c) == 3 && c.heap_ptr() as usize == heap);
                                drop(c);
                            }
                            triomphe::ArcUnionBorrow::Second(b) => {
                                let c = b.clone_arc();
                                assert!(Arc::count(&c) == 3 && c.heap_ptr() as usize == heap);
                                drop(c);
                            }
                        }
                        drop(u);
                        drop(plain);
                    }
                    _ => {
                        // the union outlives the plain Arc and releases the block as its own variant type
                        drop(plain);
                        let v = u.clone();
                        drop(u);
                        assert!(ArcUnion::strong_count(&v) == 1);
                        drop(v);
                    }
                }))
            });
        }
    }
}

/// real arc_swap::ArcSwapAny traffic over the RefCnt glue: the cell owns exactly one count of what it holds;
/// store / swap / compare_and_swap hand counts over without creating or losing any; load_full adds one
pub fn arcswap<T: Shape>(out: &mut Vec<Value>) {
    use arc_swap::{ArcSwapAny, RefCnt};
    let mut rec = json!({"family": "arcswap", "t": sh::<T>(), "ctor": "arc", "path": "store_swap_cas"});
    note_progress(&rec);
    ev::LOG.clear();
    alloc::track(true);
    let r = std::panic::catch_unwind(|| {
        let a = Arc::new(T::fill(0x31));
        let b = Arc::new(T::fill(0x32));
        let (ha, hb) = (a.heap_ptr() as usize, b.heap_ptr() as usize);
        let mut counts: Vec<(usize, usize)> = vec![];
        let mut facts = vec![];
        facts.push(("as_ptr_is_value_addr", <Arc<T> as RefCnt>::as_ptr(&a) as usize == Arc::as_ptr(&a) as usize));
        let cell: ArcSwapAny<Arc<T>> = ArcSwapAny::new(a.clone());
        counts.push((Arc::count(&a), Arc::count(&b))); // 2,1
        let l = cell.load_full();
        facts.push(("load_full_same_allocation", Arc::ptr_eq(&l, &a) && l.ok(0x31)));
        counts.push((Arc::count(&a), Arc::count(&b))); // 3,1
        drop(l);
        {
            let g = cell.load();
            facts.push(("guard_sees_value", g.ok(0x31) && Arc::ptr_eq(&g, &a)));
        }
        counts.push((Arc::count(&a), Arc::count(&b))); // 2,1
        cell.store(b.clone());
        counts.push((Arc::count(&a), Arc::count(&b))); // 1,2
        let old = cell.swap(a.clone());
        facts.push(("swap_returns_previous", Arc::ptr_eq(&old, &b)));
        counts.push((Arc::count(&a), Arc::count(&b))); // 2,2
        drop(old);
        let prev = cell.compare_and_swap(&a, b.clone());
        facts.push(("cas_previous_is_a", Arc::ptr_eq(&prev, &a)));
        drop(prev);
        counts.push((Arc::count(&a), Arc::count(&b))); // 1,2
        let inner = cell.into_inner();
        facts.push(("into_inner_is_b", Arc::ptr_eq(&inner, &b)));
        drop(inner);
        counts.push((Arc::count(&a), Arc::count(&b))); // 1,1
        drop(a);
        drop(b);
        (ha, hb, counts, facts)
    });
    alloc::track(false);
    let seen = Seen { evs: ev::drain() };
    match r {
        Ok((ha, hb, counts, facts)) => {
            rec["counts"] = json!(counts.iter().map(|c| vec![c.0, c.1]).collect::<Vec<_>>());
            rec["expected_counts"] = json!([[2, 1], [3, 1], [2, 1], [1, 2], [2, 2], [1, 2], [1, 1]]);
            rec["facts"] = json!(facts.iter().map(|f| (f.0.to_string(), f.1)).collect::<std::collections::BTreeMap<_, _>>());
            rec["deallocs_a"] = seen.deallocs_of(ha);
            rec["deallocs_b"] = seen.deallocs_of(hb);
            rec["alloc_a"] = seen.alloc_of(ha);
            rec["bad_events"] = json!(seen.bad());
            rec["panicked"] = json!(false);
        }
        Err(_) => rec["panicked"] = json!(true),
    }
    out.push(rec);
    // arc-swap keeps per-thread bookkeeping alive: do not really free what is registered here
    ev::LOG.clear();
}

/// size computations that overflow isize must be refused with a panic before anything is allocated
pub fn overflow<H: Shape + Tagged, T: Shape>(out: &mut Vec<Value>) {
    let sz = size_of::<T>().max(1);
    // the last two make `size * len` wrap around to a small number
    let mut lens = vec![usize::MAX, usize::MAX / 2 + 1, (isize::MAX as usize) / sz + 1, (isize::MAX as usize - 4) / sz + 1];
    if sz > 1 {
        // `size * len` wraps around to a small number
        lens.push(usize::MAX / sz + 2);
        lens.push(usize::MAX / sz + 9);
    }
    for len in lens {
        for ctor in ["from_header_and_uninit_slice", "new_uninit_slice", "exact_size_iter_lying_len"] {
            ev::LOG.clear();
            alloc::track(true);
            let r = std::panic::catch_unwind(|| match ctor {
                "from_header_and_uninit_slice" => {
                    let u: UniqueArc<HeaderSlice<H, [MaybeUninit<T>]>> = UniqueArc::from_header_and_uninit_slice(H::fill(1), len);
                    std::mem::forget(u);
                }
                "new_uninit_slice" => {
                    let u = UniqueArc::<[MaybeUninit<T>]>::new_uninit_slice(len);
                    std::mem::forget(u);
                }
                _ => {
                    struct Liar<T>(usize, std::marker::PhantomData<T>);
                    impl<T: Shape> Iterator for Liar<T> {
                        type Item = T;
                        fn next(&mut self) -> Option<T> {
                            None
                        }
                        fn size_hint(&self) -> (usize, Option<usize>) {
                            (self.0, Some(self.0))
                        }
                    }
                    impl<T: Shape> ExactSizeIterator for Liar<T> {}
                    let a = Arc::from_header_and_iter(H::fill(1), Liar::<T>(len, std::marker::PhantomData));
                    std::mem::forget(a);
                }
            });
            alloc::track(false);
            let evs = ev::drain();
            let big = evs.iter().filter(|e| matches!(e, Ev::Alloc { size, .. } | Ev::AllocFail { size, .. } if *size >= 4096)).count();
            out.push(json!({"family": "overflow", "h": sh::<H>(), "t": sh::<T>(), "len": format!("{:#x}", len), "ctor": ctor,
                            "panicked": r.is_err(), "block_requests": big}));
            drop(r);
            alloc::reset();
        }
    }
}

macro_rules! for_hdr_elem {
    ($f:ident, $out:expr; [$($h:ident),*]; $ts:tt) => { $( for_hdr_elem!(@inner $f, $out; $h; $ts); )* };
    (@inner $f:ident, $out:expr; $h:ident; [$($t:ident),*]) => { $( $f::<$h, $t>($out); )* };
}

pub fn run(out_path: &str) {
    *PROGRESS.lock().unwrap() = std::fs::File::create(format!("{}.progress", out_path)).ok();
    let mut out: Vec<Value> = vec![];
    // sized shapes (zero-sized and over-aligned included)
    macro_rules! singles { ($($t:ident),*) => { $( single::<$t>(&mut out); )* } }
    singles!(Z1, Z8, Z16, Z64, Z256, S1a1, S3a1, S5a1, S2a2, S6a2, S4a4, S12a4, S8a8, S24a8, S40a8, S16a16, S48a16, S32a32, S64a64, S128a128,
             S320a8, S4096a4096);
    macro_rules! slices { ($($t:ident),*) => { $( slice_of::<$t>(&mut out); )* } }
    slices!(S1a1, S3a1, S2a2, S6a2, S4a4, S12a4, S8a8, S24a8, S16a16, S32a32, S64a64, S128a128, S320a8);
    #[cfg(feature = "full")]
    {
        for_hdr_elem!(pair, &mut out; [Z1, Z8, Z16, S1a1, S3a1, S5a1, S2a2, S4a4, S12a4, S8a8, S24a8, S16a16, S32a32, S64a64];
                      [S1a1, S3a1, S2a2, S6a2, S4a4, S12a4, S8a8, S24a8, S16a16, S32a32]);
        for_hdr_elem!(union, &mut out; [Z1, Z16, S1a1, S3a1, S2a2, S4a4, S8a8, S24a8, S16a16, S32a32, S64a64];
                      [Z1, Z16, S1a1, S3a1, S2a2, S4a4, S8a8, S24a8, S16a16, S32a32, S64a64]);
    }
    #[cfg(not(feature = "full"))]
    {
        for_hdr_elem!(pair, &mut out; [Z1, Z16, S1a1, S3a1, S2a2, S12a4, S8a8, S16a16, S128a128]; [S1a1, S3a1, S2a2, S4a4, S8a8, S16a16, S32a32, S128a128]);
        for_hdr_elem!(union, &mut out; [Z1, Z16, S1a1, S2a2, S4a4, S8a8, S16a16, S64a64, S128a128]; [Z1, Z16, S1a1, S2a2, S4a4, S8a8, S16a16, S64a64, S128a128]);
    }
    for_hdr_elem!(overflow, &mut out; [Z1, S8a8, S12a4]; [S1a1, S4a4, S24a8]);
    macro_rules! swaps { ($($t:ident),*) => { $( arcswap::<$t>(&mut out); )* } }
    swaps!(Z1, S1a1, S8a8, S12a4, S16a16, S64a64);
    let f = std::fs::File::create(out_path).unwrap();
    let mut w = std::io::BufWriter::new(f);
    use std::io::Write;
    for r in &out {
        writeln!(w, "{}", r).unwrap();
    }
    let _ = std::fs::remove_file(format!("{}.progress", out_path));
}
