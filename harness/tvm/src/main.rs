//! tvm: layout / pointer matrix binary (binding for Layout.tla). Separate from tvh because its
//! many monomorphisations are slow to build and only three checks need it.
#[path = "../../src/alloc.rs"]
mod alloc;
#[path = "../../src/ev.rs"]
mod ev;
mod matrix;

#[global_allocator]
static GLOBAL: alloc::TrackAlloc = alloc::TrackAlloc;

fn main() {
    ev::init(1 << 16);
    std::panic::set_hook(Box::new(|_| {}));
    let args: Vec<String> = std::env::args().skip(1).collect();
    if args.is_empty() {
        eprintln!("usage: tvm <out.ndjson>");
        std::process::exit(2);
    }
    matrix::run(&args[0]);
}
